(* Proof_C15.v - cleaning and conversion (FillNa, DropNa, AsType, ToDatetime) are exact
   and all-or-nothing: what each cell becomes, which rows survive, and that a failed
   conversion leaves the frame (and the pool of frames) as it was. *)
From GF Require Import Ops Step Lemmas.
From Coq Require Import Lia Sorted.
Arguments N.eqb : simpl never.

(* ================================================================== *)
(* A. generic facts: map_cols, all_some, out_all, pick, fset           *)
(* ================================================================== *)

Lemma map_cols_keys g f : fkeys (map_cols g f) = fkeys f.
Proof. unfold map_cols, fkeys. rewrite map_map. apply map_ext. now intros [k c]. Qed.

Lemma map_cols_length g f : length (map_cols g f) = length f.
Proof. unfold map_cols. apply map_length. Qed.

Lemma map_cols_fget g f k :
  fget (map_cols g f) k = option_map (fun c => (cname c, g (cdata c))) (fget f k).
Proof.
  unfold map_cols. induction f as [|[k' c] t IH]; cbn [map fget fst snd]; [reflexivity|].
  destruct (str_eqb k k'); [reflexivity | exact IH].
Qed.

Lemma map_cols_names_ok g f : names_ok (map_cols g f) = names_ok f.
Proof.
  unfold names_ok, map_cols. induction f as [|[k c] t IH]; cbn [map forallb fst snd cname]; [reflexivity|].
  now rewrite IH.
Qed.

Lemma map_cols_sorted g f : sorted_keys (fkeys (map_cols g f)) = sorted_keys (fkeys f).
Proof. now rewrite map_cols_keys. Qed.

(* a column transformer whose output length depends only on the input length keeps frames rectangular *)
Lemma map_cols_rect g f :
  (forall d d', length d = length d' -> length (g d) = length (g d')) ->
  rect f = true -> rect (map_cols g f) = true.
Proof.
  intros Hg. unfold rect. rewrite !forallb_forall. intros H [k c] Hin.
  unfold map_cols in Hin. apply in_map_iff in Hin. destruct Hin as [[k' c'] [E Hin]].
  inversion E; subst. cbn [snd cdata]. specialize (H _ Hin). cbn [snd] in H.
  apply Nat.eqb_eq in H. apply Nat.eqb_eq.
  destruct f as [|[k0 c0] t]; [destruct Hin|]. cbn [map_cols map nrows fst snd cdata] in *.
  apply Hg. exact H.
Qed.

Lemma all_some_map_some {A B} (h : A -> B) (l : list A) : all_some (map (fun x => Some (h x)) l) = Some (map h l).
Proof. induction l as [|x l IH]; cbn [map all_some]; [reflexivity|]. now rewrite IH. Qed.

Lemma all_some_ext_in {A B} (h h' : A -> option B) l :
  (forall x, In x l -> h x = h' x) -> all_some (map h l) = all_some (map h' l).
Proof. intros H. f_equal. now apply map_ext_in. Qed.

(* out_all: all-or-nothing over a list of outcomes *)
Lemma out_all_ok_iff {A B} (h : A -> out B) l d :
  out_all (map h l) = Ok d <-> Forall2 (fun x y => h x = Ok y) l d.
Proof.
  revert d; induction l as [|x l IH]; intros d; cbn [map out_all].
  - split; intro H. inversion H; subst. constructor. inversion H; reflexivity.
  - split; intro H.
    + destruct (h x) as [y| |] eqn:E; cbn [bind] in H; try discriminate.
      destruct (out_all (map h l)) as [r| |] eqn:E2; cbn [bind] in H; try discriminate.
      inversion H; subst. constructor; [exact E|]. now apply IH.
    + inversion H as [|x' y l' r Hxy Hrest]; subst. rewrite Hxy. cbn [bind].
      apply IH in Hrest. rewrite Hrest. reflexivity.
Qed.

Lemma out_all_err_iff {A B} (h : A -> out B) l :
  (forall x, In x l -> h x <> Panic) ->
  (out_all (map h l) = Err <-> exists x, In x l /\ h x = Err).
Proof.
  induction l as [|x l IH]; intros NP; cbn [map out_all].
  - split; [discriminate | intros [x [[] _]]].
  - assert (NP' : forall y, In y l -> h y <> Panic) by (intros y Hy; apply NP; now right).
    specialize (IH NP'). split; intro H.
    + destruct (h x) as [y| |] eqn:E; cbn [bind] in H.
      * destruct (out_all (map h l)) as [r| |] eqn:E2; cbn [bind] in H; try discriminate.
        destruct IH as [IH _]. destruct (IH eq_refl) as [z [Hz Ez]]. exists z. split; [now right|exact Ez].
      * exists x. split; [now left|exact E].
      * exfalso. apply (NP x); [now left|exact E].
    + destruct H as [z [[->|Hz] Ez]].
      * rewrite Ez. reflexivity.
      * destruct (h x) as [y| |] eqn:E; cbn [bind]; [|reflexivity|exfalso; apply (NP x); [now left|exact E]].
        destruct IH as [_ IH]. rewrite IH by (exists z; auto). reflexivity.
Qed.

Lemma out_all_no_panic {A B} (h : A -> out B) l :
  (forall x, In x l -> h x <> Panic) -> out_all (map h l) <> Panic.
Proof.
  induction l as [|x l IH]; intros NP; cbn [map out_all]; [discriminate|].
  destruct (h x) as [y| |] eqn:E; cbn [bind]; [|discriminate|exfalso; apply (NP x); [now left|exact E]].
  destruct (out_all (map h l)) as [r| |] eqn:E2; cbn [bind]; try discriminate.
  exfalso. apply IH; [intros z Hz; apply NP; now right | reflexivity].
Qed.

Lemma Forall2_nth_opt {A B} (R : A -> B -> Prop) l d :
  Forall2 R l d -> forall i x, nth_opt l i = Some x -> exists y, nth_opt d i = Some y /\ R x y.
Proof.
  induction 1 as [|a b l d Hab H IH]; intros [|i] x Hx; cbn [nth_opt] in *; try discriminate.
  - inversion Hx; subst. eauto.
  - eauto.
Qed.

Lemma Forall2_length' {A B} (R : A -> B -> Prop) l d : Forall2 R l d -> length d = length l.
Proof. induction 1; cbn; congruence. Qed.

(* ================================================================== *)
(* B. FillNa                                                           *)
(* ================================================================== *)

Definition fill_cell (v c : cell) : cell := if is_nil c then v else c.

Lemma nth_opt_map {A B} (h : A -> B) l i : nth_opt (map h l) i = option_map h (nth_opt l i).
Proof. revert i; induction l as [|x l IH]; intros [|i]; cbn [map nth_opt option_map]; auto. Qed.

(* FillNa: same keys (and order), same Names, same column lengths; cell i of column k
   becomes v when it was nil and is unchanged otherwise.  No hypothesis on f. *)
Theorem fillna_spec f v :
  fkeys (op_fillna f v) = fkeys f
  /\ length (op_fillna f v) = length f
  /\ (forall k, fget (op_fillna f v) k
                = option_map (fun c => (cname c, map (fun x => if is_nil x then v else x) (cdata c))) (fget f k))
  /\ (forall k c, fget f k = Some c ->
        exists c', fget (op_fillna f v) k = Some c'
          /\ cname c' = cname c
          /\ cdata c' = map (fun x => if is_nil x then v else x) (cdata c)
          /\ length (cdata c') = length (cdata c)
          /\ forall i, nth_opt (cdata c') i = option_map (fill_cell v) (nth_opt (cdata c) i)).
Proof.
  unfold op_fillna. split; [apply map_cols_keys|]. split; [apply map_cols_length|].
  split; [intros k; apply map_cols_fget|].
  intros k c Hk. rewrite map_cols_fget, Hk. cbn [option_map].
  eexists. split; [reflexivity|]. cbn [cname cdata fst snd].
  repeat split. now rewrite map_length. intros i. now rewrite nth_opt_map.
Qed.

(* the whole frame, positionally: column j of the result is column j of f filled *)
Lemma fillna_cols f v :
  op_fillna f v = map (fun kc => (fst kc, (cname (snd kc), map (fill_cell v) (cdata (snd kc))))) f.
Proof. reflexivity. Qed.

Lemma fillna_nrows f v : nrows (op_fillna f v) = nrows f.
Proof. destruct f as [|[k c] t]; cbn; [reflexivity|]. now rewrite map_length. Qed.

Lemma fillna_wf f v : wf_frame f = true -> wf_frame (op_fillna f v) = true.
Proof.
  unfold wf_frame, op_fillna. intros H. apply andb_prop in H. destruct H as [H H3].
  apply andb_prop in H. destruct H as [H1 H2].
  rewrite map_cols_names_ok, map_cols_sorted, H2, H3.
  rewrite map_cols_rect; auto. intros d d' E. now rewrite !map_length.
Qed.

(* a non-nil fill value leaves no nil anywhere *)
Corollary fillna_no_nil f v : v <> CNil ->
  forall kc x, In kc (op_fillna f v) -> In x (cdata (snd kc)) -> x <> CNil.
Proof.
  intros Hv kc x Hin Hx. rewrite fillna_cols in Hin. apply in_map_iff in Hin.
  destruct Hin as [[k c] [E Hin]]. subst kc. cbn [snd cdata] in Hx.
  apply in_map_iff in Hx. destruct Hx as [y [E Hy]]. subst x. unfold fill_cell.
  destruct y; cbn [is_nil]; try discriminate. exact Hv.
Qed.

(* cells that were not nil are untouched, whatever the fill value *)
Corollary fillna_nonnil_untouched f v k c i x :
  fget f k = Some c -> nth_opt (cdata c) i = Some x -> x <> CNil ->
  exists c', fget (op_fillna f v) k = Some c' /\ nth_opt (cdata c') i = Some x.
Proof.
  intros Hk Hi Hx. destruct (fillna_spec f v) as [_ [_ [_ H]]].
  destruct (H k c Hk) as [c' [H1 [_ [_ [_ H5]]]]]. exists c'. split; [exact H1|].
  rewrite H5, Hi. cbn [option_map]. unfold fill_cell. destruct x; cbn [is_nil]; congruence.
Qed.

Corollary fillna_nil_filled f v k c i :
  fget f k = Some c -> nth_opt (cdata c) i = Some CNil ->
  exists c', fget (op_fillna f v) k = Some c' /\ nth_opt (cdata c') i = Some v.
Proof.
  intros Hk Hi. destruct (fillna_spec f v) as [_ [_ [_ H]]].
  destruct (H k c Hk) as [c' [H1 [_ [_ [_ H5]]]]]. exists c'. split; [exact H1|].
  now rewrite H5, Hi.
Qed.

(* FillNa is idempotent *)
Lemma fillna_idem f v : op_fillna (op_fillna f v) v = op_fillna f v.
Proof.
  rewrite !fillna_cols. rewrite map_map. apply map_ext. intros [k [n d]]. cbn [fst snd cname cdata].
  do 2 f_equal. rewrite map_map. apply map_ext. intros x. unfold fill_cell.
  destruct x; cbn [is_nil]; try reflexivity. destruct v; reflexivity.
Qed.

Definition ex_frame : frame :=
  [([97%N], ([97%N], [CI KInt 1; CNil; CI KInt 3; CNil]));
   ([98%N], ([98%N], [CNil; CS [120%N]; CS [121%N]; CNil]));
   ([99%N], ([99%N], [CF KF64 (FFin 5); CB true; CNil; CF KF64 FNaN]))].

Example ex_frame_wf : wf_frame ex_frame = true.
Proof. vm_compute. reflexivity. Qed.

Example fillna_example :
  op_fillna ex_frame (CI KInt 0) =
  [([97%N], ([97%N], [CI KInt 1; CI KInt 0; CI KInt 3; CI KInt 0]));
   ([98%N], ([98%N], [CI KInt 0; CS [120%N]; CS [121%N]; CI KInt 0]));
   ([99%N], ([99%N], [CF KF64 (FFin 5); CB true; CI KInt 0; CF KF64 FNaN]))].
Proof. vm_compute. reflexivity. Qed.

(* ================================================================== *)
(* C. DropNa                                                           *)
(* ================================================================== *)
Local Open Scope nat_scope.

(* row i of a rectangular frame, as a total function *)
Definition row_at (f : frame) (i : nat) : rowmap :=
  map (fun kc => (fst kc, nth i (cdata (snd kc)) CNil)) f.
Definition row_has_nil (r : rowmap) : bool := existsb (fun kv => is_nil (snd kv)) r.
(* the positions DropNa keeps: the rows without a nil, in ascending order *)
Definition dropna_keep (f : frame) : list nat :=
  filter (fun i => negb (row_has_nil (row_at f i))) (seq 0 (nrows f)).

Lemma rect_col_length f kc : rect f = true -> In kc f -> length (cdata (snd kc)) = nrows f.
Proof.
  unfold rect. rewrite forallb_forall. intros H Hin. apply Nat.eqb_eq. now apply H.
Qed.

Lemma frow_rect f i : rect f = true -> i < nrows f -> frow f i = Some (row_at f i).
Proof.
  intros Hr Hi. unfold frow. apply Nat.ltb_lt in Hi. rewrite Hi. apply Nat.ltb_lt in Hi.
  unfold row_at, rowmap. rewrite <- (all_some_map_some (fun kc : str * col => (fst kc, nth i (cdata (snd kc)) CNil)) f).
  apply all_some_ext_in. intros kc Hin.
  rewrite (nth_opt_nth _ _ CNil); [reflexivity|]. rewrite (rect_col_length f kc); assumption.
Qed.

Lemma frow_none f i : nrows f <= i -> frow f i = None.
Proof. intros H. unfold frow. apply Nat.ltb_ge in H. now rewrite H. Qed.

Lemma frows_rect f : rect f = true ->
  all_some (map (frow f) (seq 0 (nrows f))) = Some (map (row_at f) (seq 0 (nrows f))).
Proof.
  intros Hr. rewrite <- all_some_map_some. apply all_some_ext_in. intros i Hi.
  apply in_seq in Hi. apply frow_rect; [assumption|lia].
Qed.

Lemma rows_rect f : rect f = true -> rows f = map (row_at f) (seq 0 (nrows f)).
Proof.
  intros Hr. unfold rows.
  assert (G : forall l, (forall i, In i l -> i < nrows f) ->
     flat_map (fun i => match frow f i with Some r => [r] | None => [] end) l = map (row_at f) l).
  { induction l as [|i l IH]; intros Hl; cbn [flat_map map]; [reflexivity|].
    rewrite frow_rect; [|assumption|apply Hl; now left]. cbn [app]. f_equal. apply IH.
    intros j Hj. apply Hl. now right. }
  apply G. intros i Hi. apply in_seq in Hi. lia.
Qed.

Lemma keep_combine {A B} (P : B -> bool) (h : A -> B) l :
  map fst (filter (fun ir => P (snd ir)) (combine l (map h l))) = filter (fun i => P (h i)) l.
Proof.
  induction l as [|x l IH]; cbn [map combine filter fst snd]; [reflexivity|].
  destruct (P (h x)); cbn [map fst]; now rewrite IH.
Qed.

(* DropNa on a rectangular frame succeeds and keeps, in every column, exactly the
   positions of the rows without nil, in their original order *)
Theorem dropna_spec f : rect f = true ->
  op_dropna f = Ok (map_cols (fun d => pick d (dropna_keep f)) f).
Proof.
  intros Hr. unfold op_dropna. rewrite (frows_rect f Hr).
  change (fun ir : nat * list (str * cell) => negb (existsb (fun kv => is_nil (snd kv)) (snd ir)))
    with (fun ir : nat * rowmap => (fun r => negb (row_has_nil r)) (snd ir)).
  rewrite (keep_combine (fun r => negb (row_has_nil r)) (row_at f)). reflexivity.
Qed.

Lemma dropna_never_panics f : op_dropna f <> Panic.
Proof. unfold op_dropna. destruct (all_some _); discriminate. Qed.

Corollary dropna_ok_on_rect f : rect f = true -> exists g, op_dropna f = Ok g.
Proof. intros H. eexists. now apply dropna_spec. Qed.

(* on a frame that is not rectangular, a short column makes some Row(i) fail: Err, nothing dropped *)
Lemma dropna_err_iff f : op_dropna f = Err <-> exists i, i < nrows f /\ frow f i = None.
Proof.
  unfold op_dropna. set (l := seq 0 (nrows f)).
  assert (G : forall l0, all_some (map (frow f) l0) = None <-> exists i, In i l0 /\ frow f i = None).
  { induction l0 as [|i l0 IH]; cbn [map all_some].
    - split; [discriminate| intros [i [[] _]]].
    - destruct (frow f i) as [r|] eqn:E.
      + destruct (all_some (map (frow f) l0)) eqn:E2.
        * split; [discriminate|]. intros [j [[->|Hj] Ej]]; [congruence|].
          destruct IH as [_ IH]. discriminate IH. eauto.
        * split; [|reflexivity]. intros _. destruct IH as [IH _]. destruct (IH eq_refl) as [j [Hj Ej]].
          exists j. split; [now right|assumption].
      + split; [|reflexivity]. intros _. exists i. split; [now left|assumption]. }
  destruct (all_some (map (frow f) l)) eqn:E.
  - split; [discriminate|]. intros [i [Hi Ei]]. assert (H : all_some (map (frow f) l) = None).
    { apply G. exists i. split; [|assumption]. apply in_seq. lia. } congruence.
  - split; [|reflexivity]. intros _. apply G in E. destruct E as [i [Hi Ei]]. exists i.
    apply in_seq in Hi. split; [lia|assumption].
Qed.

Lemma row_has_nil_at f i :
  row_has_nil (row_at f i) = existsb (fun kc => is_nil (nth i (cdata (snd kc)) CNil)) f.
Proof.
  unfold row_has_nil, row_at. induction f as [|kc f IH]; cbn [map existsb snd]; [reflexivity|].
  now rewrite IH.
Qed.

(* which rows are kept: those below nrows all of whose cells are non-nil *)
Theorem dropna_keep_iff f i :
  In i (dropna_keep f) <-> i < nrows f /\ forall kc, In kc f -> nth i (cdata (snd kc)) CNil <> CNil.
Proof.
  unfold dropna_keep. rewrite filter_In, in_seq, row_has_nil_at. split.
  - intros [Hi Hn]. split; [lia|]. intros kc Hin E.
    apply negb_true_iff in Hn. assert (X : existsb (fun kc => is_nil (nth i (cdata (snd kc)) CNil)) f = true).
    { apply existsb_exists. exists kc. split; [assumption|]. now rewrite E. } congruence.
  - intros [Hi Hn]. split; [lia|]. apply negb_true_iff.
    destruct (existsb _ f) eqn:E; [|reflexivity]. apply existsb_exists in E.
    destruct E as [kc [Hin Hnil]]. exfalso. apply (Hn kc Hin).
    destruct (nth i (cdata (snd kc)) CNil); try discriminate. reflexivity.
Qed.

Corollary dropna_keep_iff_cells f i : rect f = true ->
  (In i (dropna_keep f) <->
   i < nrows f /\ forall kc, In kc f -> exists x, nth_opt (cdata (snd kc)) i = Some x /\ x <> CNil).
Proof.
  intros Hr. rewrite dropna_keep_iff. split; intros [Hi H]; (split; [assumption|]); intros kc Hin.
  - exists (nth i (cdata (snd kc)) CNil). split; [|now apply H].
    apply nth_opt_nth. now rewrite (rect_col_length f kc).
  - destruct (H kc Hin) as [x [E Hx]].
    rewrite (nth_opt_nth _ _ CNil) in E by (now rewrite (rect_col_length f kc)). congruence.
Qed.

Lemma sorted_seq a n : StronglySorted lt (seq a n).
Proof.
  revert a; induction n as [|n IH]; intros a; cbn [seq]; constructor; [apply IH|].
  apply Forall_forall. intros x Hx. apply in_seq in Hx. lia.
Qed.
Lemma sorted_filter {A} (R : A -> A -> Prop) p l : StronglySorted R l -> StronglySorted R (filter p l).
Proof.
  induction 1 as [|x l Hs IH Hx]; cbn [filter]; [constructor|].
  destruct (p x); [|assumption]. constructor; [assumption|].
  apply Forall_forall. intros y Hy. apply filter_In in Hy. rewrite Forall_forall in Hx. now apply Hx.
Qed.
(* rows are kept in their original order *)
Lemma dropna_keep_sorted f : StronglySorted lt (dropna_keep f).
Proof. apply sorted_filter, sorted_seq. Qed.

(* pick with valid positions *)
Lemma pick_valid (d : list cell) idxs : (forall i, In i idxs -> i < length d) ->
  pick d idxs = map (fun i => nth i d CNil) idxs.
Proof.
  induction idxs as [|i l IH]; intros H; cbn [pick flat_map map]; [reflexivity|].
  rewrite (nth_opt_nth d i CNil) by (apply H; now left). cbn [app]. f_equal.
  apply IH. intros j Hj. apply H. now right.
Qed.

Lemma dropna_keep_lt f i : In i (dropna_keep f) -> i < nrows f.
Proof. intros H. apply dropna_keep_iff in H. tauto. Qed.

Lemma map_nth_seq {A} (l : list A) dflt : map (fun j => nth j l dflt) (seq 0 (length l)) = l.
Proof.
  induction l as [|x l IH]; cbn [length seq map nth]; [reflexivity|]. f_equal.
  rewrite <- seq_shift, map_map. exact IH.
Qed.

Lemma filter_map_comm {A B} (p : B -> bool) (h : A -> B) l :
  filter p (map h l) = map h (filter (fun x => p (h x)) l).
Proof. induction l as [|x l IH]; cbn [map filter]; [reflexivity|]. destruct (p (h x)); cbn [map]; now rewrite IH. Qed.

(* the columns of the result, cell by cell *)
Lemma dropna_pick f d : length d = nrows f ->
  pick d (dropna_keep f) = map (fun i => nth i d CNil) (dropna_keep f).
Proof.
  intros Hd. apply pick_valid. intros i Hi. rewrite Hd. now apply dropna_keep_lt.
Qed.
Lemma dropna_cols f kc : rect f = true -> In kc f ->
  pick (cdata (snd kc)) (dropna_keep f) = map (fun i => nth i (cdata (snd kc)) CNil) (dropna_keep f).
Proof. intros Hr Hin. apply dropna_pick. now apply rect_col_length. Qed.

Lemma dropna_nrows f : rect f = true ->
  nrows (map_cols (fun d => pick d (dropna_keep f)) f) = length (dropna_keep f).
Proof.
  intros Hr. destruct f as [|[k0 c0] t]; [reflexivity|]. cbn [map_cols map nrows fst snd cdata].
  rewrite dropna_pick by reflexivity. now rewrite map_length.
Qed.

Lemma dropna_rect f : rect f = true -> rect (map_cols (fun d => pick d (dropna_keep f)) f) = true.
Proof.
  intros Hr. unfold rect. rewrite forallb_forall. intros [k c] Hin. rewrite dropna_nrows by assumption.
  unfold map_cols in Hin. apply in_map_iff in Hin. destruct Hin as [kc [E Hin]]. inversion E; subst.
  cbn [snd cdata]. apply Nat.eqb_eq. now rewrite (dropna_cols f kc Hr Hin), map_length.
Qed.

(* the rows of the result are the rows of f without nil, in order *)
Theorem dropna_rows f g : rect f = true -> op_dropna f = Ok g ->
  rows g = filter (fun r => negb (existsb (fun kv => is_nil (snd kv)) r)) (rows f).
Proof.
  intros Hr Hg. rewrite (dropna_spec f Hr) in Hg. inversion Hg; subst g. clear Hg.
  rewrite (rows_rect _ (dropna_rect f Hr)), (rows_rect f Hr), dropna_nrows by assumption.
  change (fun r : rowmap => negb (existsb (fun kv => is_nil (snd kv)) r)) with (fun r => negb (row_has_nil r)).
  rewrite filter_map_comm.
  change (filter _ (seq 0 (nrows f))) with (dropna_keep f).
  transitivity (map (row_at f) (map (fun j => nth j (dropna_keep f) 0) (seq 0 (length (dropna_keep f)))));
    [|now rewrite map_nth_seq].
  rewrite map_map.
  apply map_ext_in. intros j Hj. apply in_seq in Hj.
  unfold row_at, map_cols. rewrite map_map. apply map_ext_in. intros kc Hin. cbn [fst snd cdata].
  f_equal. rewrite (dropna_cols f kc Hr Hin).
  rewrite nth_indep with (d' := (fun i => nth i (cdata (snd kc)) CNil) 0) by (rewrite map_length; lia).
  exact (map_nth (fun i => nth i (cdata (snd kc)) CNil) (dropna_keep f) 0 j).
Qed.

Definition ex_frame2 : frame :=
  [([97%N], ([97%N], [CI KInt 1; CNil; CI KInt 3; CI KInt 4]));
   ([98%N], ([98%N], [CS [120%N]; CS [121%N]; CS [122%N]; CNil]));
   ([99%N], ([99%N], [CF KF64 (FFin 5); CB true; CF KF64 FNaN; CI KInt 7]))].

Example dropna_example :
  wf_frame ex_frame2 = true /\ dropna_keep ex_frame2 = [0; 2] /\
  op_dropna ex_frame2 =
  Ok [([97%N], ([97%N], [CI KInt 1; CI KInt 3]));
      ([98%N], ([98%N], [CS [120%N]; CS [122%N]]));
      ([99%N], ([99%N], [CF KF64 (FFin 5); CF KF64 FNaN]))].
Proof. vm_compute. repeat split. Qed.
(* every row of ex_frame has a nil: everything goes, the columns stay *)
Example dropna_example_all :
  op_dropna ex_frame = Ok [([97%N], ([97%N], [])); ([98%N], ([98%N], [])); ([99%N], ([99%N], []))].
Proof. vm_compute. reflexivity. Qed.
(* a ragged frame: Row(1) fails, DropNa reports an error *)
Example dropna_example_ragged :
  op_dropna [([97%N], ([97%N], [CI KInt 1; CNil])); ([98%N], ([98%N], [CS []]))] = Err.
Proof. vm_compute. reflexivity. Qed.

(* ================================================================== *)
(* D. AsType: the per-cell rule                                        *)
(* ================================================================== *)
Local Open Scope Z_scope.

Lemma grid_pow : grid = 2 ^ 1074.
Proof. unfold grid. apply Z.shiftl_1_l. Qed.
Lemma grid_pos : 0 < grid.
Proof. rewrite grid_pow. apply Z.pow_pos_nonneg; lia. Qed.

(* int(f) of a finite float: the grid value divided by one unit, rounded toward zero *)
Lemma fl_trunc_fin m : fl_trunc (FFin m) = Some (Z.quot m grid).
Proof.
  cbn [fl_trunc]. f_equal. pose proof grid_pos as G. rewrite !Z.shiftr_div_pow2 by lia. rewrite <- grid_pow.
  destruct (m <? 0) eqn:E.
  - apply Z.ltb_lt in E. rewrite <- (Z.opp_involutive m) at 2. rewrite Z.quot_opp_l by lia.
    rewrite Z.quot_div_nonneg by lia. reflexivity.
  - apply Z.ltb_ge in E. rewrite Z.quot_div_nonneg by lia. reflexivity.
Qed.

(* truncation: the result z is the integer with |z| <= |x| < |z| + 1 and the sign of x *)
Lemma fl_trunc_bounds m z : fl_trunc (FFin m) = Some z ->
  Z.abs z * grid <= Z.abs m < (Z.abs z + 1) * grid /\ 0 <= z * m.
Proof.
  rewrite fl_trunc_fin. intros H. inversion H; subst z. clear H. pose proof grid_pos as G.
  assert (A : Z.abs (m ÷ grid) = Z.abs m / grid).
  { rewrite <- Z.quot_abs by lia. rewrite (Z.abs_eq grid) by lia. apply Z.quot_div_nonneg; lia. }
  rewrite A. split.
  - pose proof (Z.mul_div_le (Z.abs m) grid G). pose proof (Z.mul_succ_div_gt (Z.abs m) grid G). lia.
  - destruct (Z_le_gt_dec 0 m) as [P|N].
    + assert (0 <= m ÷ grid) by (apply Z.quot_pos; lia). nia.
    + rewrite <- (Z.opp_involutive m) at 1. rewrite Z.quot_opp_l by lia.
      assert (0 <= (- m) ÷ grid) by (apply Z.quot_pos; lia). nia.
Qed.

Definition is_f64 (c : cell) : bool := match c with CF KF64 _ => true | _ => false end.
Definition is_int (c : cell) : bool := match c with CI KInt _ => true | _ => false end.
Definition nonfinite (x : fl) : bool := match x with FNaN | FPInf | FNInf => true | _ => false end.

(* target "int" *)
Lemma astype_int_fin O m : astype_cell O s_int (CF KF64 (FFin m)) = Ok (CI KInt (Z.quot m grid)).
Proof.
  unfold astype_cell. rewrite str_eqb_refl. rewrite fl_trunc_fin. reflexivity.
Qed.
Lemma astype_int_negzero O : astype_cell O s_int (CF KF64 FNegZero) = Ok (CI KInt 0).
Proof. reflexivity. Qed.
(* NaN and the infinities: the model follows amd64, where the conversion yields MinInt64 *)
Lemma astype_int_nonfinite O x : nonfinite x = true ->
  astype_cell O s_int (CF KF64 x) = Ok (CI KInt (- two63)).
Proof. destruct x; cbn [nonfinite]; intros H; try discriminate; reflexivity. Qed.
Lemma astype_int_rejects O c : is_f64 c = false -> astype_cell O s_int c = Err.
Proof.
  unfold astype_cell. rewrite str_eqb_refl. destruct c as [|k z|k x|s|b|t]; try reflexivity.
  destruct k; [reflexivity|discriminate].
Qed.
Lemma astype_int_err_iff O c : astype_cell O s_int c = Err <-> is_f64 c = false.
Proof.
  split; [|apply astype_int_rejects]. unfold astype_cell. rewrite str_eqb_refl.
  destruct c as [|k z|k x|s|b|t]; try reflexivity. destruct k; [reflexivity|].
  destruct (fl_trunc x); discriminate.
Qed.

(* target "float64" *)
Lemma astype_float_int O z : astype_cell O s_float64 (CI KInt z) = Ok (CF KF64 (fl_of_Z z)).
Proof. reflexivity. Qed.
Lemma astype_float_err_iff O c : astype_cell O s_float64 c = Err <-> is_int c = false.
Proof.
  unfold astype_cell. replace (str_eqb s_float64 s_int) with false by reflexivity.
  rewrite str_eqb_refl. destruct c as [|k z|k x|s|b|t]; try (split; reflexivity).
  destruct k; split; try reflexivity; discriminate.
Qed.

(* target "string": every cell converts, to its %v rendering *)
Lemma astype_string O c : astype_cell O s_string c = Ok (CS (render O c)).
Proof. reflexivity. Qed.

(* any other target name *)
Lemma astype_other O ty c : ty <> s_int -> ty <> s_float64 -> ty <> s_string -> astype_cell O ty c = Err.
Proof.
  intros H1 H2 H3. unfold astype_cell. apply str_eqb_neq in H1, H2, H3. now rewrite H1, H2, H3.
Qed.

Lemma astype_cell_no_panic O ty c : astype_cell O ty c <> Panic.
Proof.
  unfold astype_cell. destruct (str_eqb ty s_int).
  - destruct c as [|k z|k x|s|b|t]; try discriminate. destruct k; try discriminate.
    destruct (fl_trunc x); discriminate.
  - destruct (str_eqb ty s_float64).
    + destruct c as [|k z|k x|s|b|t]; try discriminate. destruct k; discriminate.
    + destruct (str_eqb ty s_string); discriminate.
Qed.

(* the whole per-cell rule in one statement *)
Theorem astype_rule O :
  (forall m, astype_cell O s_int (CF KF64 (FFin m)) = Ok (CI KInt (Z.quot m grid)))
  /\ astype_cell O s_int (CF KF64 FNegZero) = Ok (CI KInt 0)
  /\ (forall x, nonfinite x = true -> astype_cell O s_int (CF KF64 x) = Ok (CI KInt (- two63)))
  /\ (forall c, astype_cell O s_int c = Err <-> is_f64 c = false)
  /\ (forall z, astype_cell O s_float64 (CI KInt z) = Ok (CF KF64 (fl_of_Z z)))
  /\ (forall c, astype_cell O s_float64 c = Err <-> is_int c = false)
  /\ (forall c, astype_cell O s_string c = Ok (CS (render O c)))
  /\ (forall ty c, ty <> s_int -> ty <> s_float64 -> ty <> s_string -> astype_cell O ty c = Err)
  /\ (forall ty c, astype_cell O ty c <> Panic).
Proof.
  repeat split; try apply astype_int_err_iff; try apply astype_float_err_iff.
  - apply astype_int_fin.
  - apply astype_int_nonfinite.
  - apply astype_other.
  - apply astype_cell_no_panic.
Qed.

Definition O0 : oracles := Build_oracles [] [(CF KF64 (FFin (Z.shiftl 5 1073)), [50; 46; 53]%N)] [].
Example astype_rule_example :
  astype_cell O0 s_int (CF KF64 (FFin (Z.shiftl 5 1073))) = Ok (CI KInt 2)         (* 2.5 -> 2 *)
  /\ astype_cell O0 s_int (CF KF64 (FFin (- Z.shiftl 5 1073))) = Ok (CI KInt (-2))  (* -2.5 -> -2 *)
  /\ astype_cell O0 s_int (CF KF32 (FFin 0)) = Err
  /\ astype_cell O0 s_int (CI KInt 3) = Err
  /\ astype_cell O0 s_float64 (CI KInt 3) = Ok (CF KF64 (FFin (Z.shiftl 3 1074)))
  /\ astype_cell O0 s_float64 (CI KInt64 3) = Err
  /\ astype_cell O0 s_string (CF KF64 (FFin (Z.shiftl 5 1073))) = Ok (CS [50; 46; 53]%N)
  /\ astype_cell O0 s_string CNil = Ok (CS s_nil)
  /\ astype_cell O0 [105; 110; 116; 54; 52]%N (CI KInt 3) = Err.                    (* "int64" *)
Proof. vm_compute. repeat split. Qed.

(* ================================================================== *)
(* E. replacing one column: fset on a present key                      *)
(* ================================================================== *)

Lemma str_compare_gt_neq k k' : str_compare k k' = Gt -> str_eqb k k' = false.
Proof. intros H. apply str_eqb_neq. intros E. apply str_compare_eq in E. congruence. Qed.
Lemma str_compare_lt_neq k k' : str_compare k k' = Lt -> str_eqb k k' = false.
Proof. intros H. apply str_eqb_neq. intros E. apply str_compare_eq in E. congruence. Qed.

Section FSet.
Context {A : Type}.
Implicit Types (f : list (str * A)) (k : str) (c : A).

Lemma fget_fset_same f k c : fget (fset f k c) k = Some c.
Proof.
  induction f as [|[k' c'] t IH]; cbn [fset fget].
  - now rewrite str_eqb_refl.
  - destruct (str_compare k k') eqn:E; cbn [fget].
    + now rewrite str_eqb_refl.
    + now rewrite str_eqb_refl.
    + rewrite (str_compare_gt_neq _ _ E). exact IH.
Qed.

Lemma fget_fset_other f k k' c : k' <> k -> fget (fset f k c) k' = fget f k'.
Proof.
  intros N. assert (H : str_eqb k' k = false) by (now apply str_eqb_neq).
  induction f as [|[k0 c0] t IH]; cbn [fset fget].
  - now rewrite H.
  - destruct (str_compare k k0) eqn:E; cbn [fget].
    + apply str_compare_eq in E. subst k0. now rewrite H.
    + now rewrite H.
    + destruct (str_eqb k' k0); [reflexivity|exact IH].
Qed.

Lemma sorted_tail k0 (l : list str) : sorted_keys (k0 :: l) = true -> sorted_keys l = true.
Proof.
  destruct l as [|b t]; [reflexivity|]. cbn [sorted_keys]. intros H. apply andb_prop in H. tauto.
Qed.

(* in a sorted list every later key is above the head *)
Lemma sorted_head_lt k0 f : sorted_keys (k0 :: fkeys f) = true ->
  forall kc, In kc f -> str_ltb k0 (fst kc) = true.
Proof.
  revert k0; induction f as [|[k1 c1] t IH]; intros k0 H kc Hin; [destruct Hin|].
  cbn [fkeys map fst sorted_keys] in H. apply andb_prop in H. destruct H as [H1 H2].
  destruct Hin as [<-|Hin]; [exact H1|]. eapply str_ltb_trans; [exact H1|]. now apply (IH k1).
Qed.

Lemma str_ltb_neq a b : str_ltb a b = true -> str_eqb a b = false.
Proof. intros H. apply str_eqb_neq. intros ->. now rewrite str_ltb_irrefl in H. Qed.

Lemma fget_above_none k0 f k : sorted_keys (k0 :: fkeys f) = true ->
  (str_ltb k k0 = true \/ k = k0) -> fget f k = None.
Proof.
  intros Hs Hk. assert (G : forall kc, In kc f -> str_eqb k (fst kc) = false).
  { intros kc Hin. apply str_ltb_neq. pose proof (sorted_head_lt k0 f Hs kc Hin) as L.
    destruct Hk as [Hk| ->]; [eapply str_ltb_trans; eauto|exact L]. }
  clear Hs Hk. induction f as [|[k1 c1] t IH]; cbn [fget]; [reflexivity|].
  pose proof (G (k1, c1) (or_introl eq_refl)) as G1. cbn [fst] in G1. rewrite G1. apply IH. intros kc Hin. apply G. now right.
Qed.

(* on a frame with sorted keys, writing a key that is present replaces that one entry
   and nothing else: same keys in the same order, every other entry identical *)
Lemma fset_present f k c c0 : sorted_keys (fkeys f) = true -> fget f k = Some c0 ->
  fset f k c = map (fun kc => if str_eqb k (fst kc) then (k, c) else kc) f.
Proof.
  induction f as [|[k1 c1] t IH]; intros Hs Hg; [discriminate|].
  cbn [fset map fst]. destruct (str_compare k k1) eqn:E.
  - apply str_compare_eq in E. subst k1. rewrite str_eqb_refl. f_equal.
    etransitivity; [symmetry; apply map_id|]. apply map_ext_in. intros kc Hin.
    rewrite (str_ltb_neq k (fst kc)); [reflexivity|]. now apply (sorted_head_lt k t).
  - exfalso. cbn [fget] in Hg. rewrite (str_compare_lt_neq _ _ E) in Hg.
    rewrite (fget_above_none k1 t k Hs) in Hg; [discriminate|]. left. unfold str_ltb. now rewrite E.
  - cbn [fget] in Hg. rewrite (str_compare_gt_neq _ _ E) in *. f_equal.
    apply IH; [|exact Hg]. now apply sorted_tail in Hs.
Qed.

Lemma fset_present_keys f k c c0 : sorted_keys (fkeys f) = true -> fget f k = Some c0 ->
  fkeys (fset f k c) = fkeys f.
Proof.
  intros Hs Hg. rewrite (fset_present f k c c0 Hs Hg). unfold fkeys. rewrite map_map.
  apply map_ext. intros [k1 c1]. cbn [fst]. destruct (str_eqb k k1) eqn:E; [|reflexivity].
  apply str_eqb_eq in E. now subst.
Qed.
End FSet.

(* a successful out_all over a map is the map of the successful results *)
Lemma Forall2_ok_map {A B} (h : A -> out B) (dflt : B) l d :
  Forall2 (fun x y => h x = Ok y) l d ->
  d = map (fun x => match h x with Ok y => y | _ => dflt end) l.
Proof. induction 1 as [|x y l d Hxy H IH]; cbn [map]; [reflexivity|]. now rewrite Hxy, <- IH. Qed.

(* ================================================================== *)
(* F. AsType and ToDatetime on a frame: all cells or none              *)
(* ================================================================== *)

(* both operations are "convert every cell of one column with h, or fail" *)
Definition conv_col (h : cell -> out cell) (f : frame) (cn : str) : out frame :=
  match fget f cn with
  | None => Err
  | Some c => do d <- out_all (map h (cdata c)); Ok (fset f cn (cname c, d))
  end.
Definition datetime_cell (O : oracles) (layout : str) (v : cell) : out cell :=
  match v with
  | CS s => match tparse O layout s with Some t => Ok (CT t) | None => Err end
  | _ => Err
  end.
Lemma op_astype_conv O f cn ty : op_astype O f cn ty = conv_col (astype_cell O ty) f cn.
Proof. reflexivity. Qed.
Lemma op_datetime_conv O f cn layout : op_datetime O f cn layout = conv_col (datetime_cell O layout) f cn.
Proof. reflexivity. Qed.

Lemma datetime_cell_no_panic O layout v : datetime_cell O layout v <> Panic.
Proof. destruct v; cbn [datetime_cell]; try discriminate. destruct (tparse O layout s); discriminate. Qed.

Lemma conv_col_ok h f cn g : conv_col h f cn = Ok g ->
  exists c d, fget f cn = Some c
    /\ g = fset f cn (cname c, d)
    /\ Forall2 (fun x y => h x = Ok y) (cdata c) d
    /\ d = map (fun x => match h x with Ok y => y | _ => CNil end) (cdata c)
    /\ length d = length (cdata c)
    /\ (forall i x, nth_opt (cdata c) i = Some x -> exists y, nth_opt d i = Some y /\ h x = Ok y)
    /\ fget g cn = Some (cname c, d)
    /\ (forall k, k <> cn -> fget g k = fget f k).
Proof.
  unfold conv_col. destruct (fget f cn) as [c|] eqn:Hc; [|discriminate].
  destruct (out_all (map h (cdata c))) as [d| |] eqn:Hd; cbn [bind]; try discriminate.
  intros H. inversion H; subst g. clear H. apply out_all_ok_iff in Hd.
  exists c, d. split; [reflexivity|]. split; [reflexivity|]. split; [exact Hd|].
  split; [now apply Forall2_ok_map|]. split; [now apply Forall2_length' in Hd|].
  split; [intros i x Hx; apply (Forall2_nth_opt _ _ _ Hd i x Hx)|].
  split; [apply fget_fset_same|]. intros k Hk. now apply fget_fset_other.
Qed.

(* f with the entry at key cn replaced by column v, everything else as it was *)
Definition replace_col (cn : str) (v : col) (f : frame) : frame :=
  map (fun kc => if str_eqb cn (fst kc) then (cn, v) else kc) f.

Lemma replace_col_keys cn v f : fkeys (replace_col cn v f) = fkeys f.
Proof.
  unfold replace_col, fkeys. rewrite map_map. apply map_ext. intros [k1 c1]. cbn [fst].
  destruct (str_eqb cn k1) eqn:E; [|reflexivity]. apply str_eqb_eq in E. now subst.
Qed.

Lemma conv_col_ok_sorted h f cn g : sorted_keys (fkeys f) = true -> conv_col h f cn = Ok g ->
  fkeys g = fkeys f
  /\ exists c d, fget f cn = Some c /\ Forall2 (fun x y => h x = Ok y) (cdata c) d
     /\ g = replace_col cn (cname c, d) f.
Proof.
  intros Hs H. destruct (conv_col_ok h f cn g H) as [c [d [Hc [Hg [Hd _]]]]]. subst g. split.
  - now apply (fset_present_keys f cn _ c).
  - exists c, d. split; [assumption|]. split; [assumption|]. now apply (fset_present f cn _ c).
Qed.

Lemma conv_col_err_iff h f cn : (forall x, h x <> Panic) ->
  (conv_col h f cn = Err <->
   fget f cn = None \/ exists c x, fget f cn = Some c /\ In x (cdata c) /\ h x = Err).
Proof.
  intros NP. unfold conv_col. destruct (fget f cn) as [c|] eqn:Hc.
  - pose proof (out_all_err_iff h (cdata c) (fun x _ => NP x)) as E.
    destruct (out_all (map h (cdata c))) as [d| |] eqn:Hd; cbn [bind].
    + split; [discriminate|]. intros [X|[c' [x [Hc' [Hx Ex]]]]]; [discriminate|]. inversion Hc'; subst c'.
      destruct E as [_ E]. discriminate E. eauto.
    + split; [|reflexivity]. intros _. right. destruct E as [E _]. destruct (E eq_refl) as [x [Hx Ex]].
      exists c, x. auto.
    + exfalso. apply (out_all_no_panic h (cdata c) (fun x _ => NP x)). exact Hd.
  - split; [now left|reflexivity].
Qed.

Lemma conv_col_no_panic h f cn : (forall x, h x <> Panic) -> conv_col h f cn <> Panic.
Proof.
  intros NP. unfold conv_col. destruct (fget f cn) as [c|]; [|discriminate].
  destruct (out_all (map h (cdata c))) as [d| |] eqn:Hd; cbn [bind]; try discriminate.
  exfalso. apply (out_all_no_panic h (cdata c) (fun x _ => NP x)). exact Hd.
Qed.

(* conversions keep a well-formed frame well formed *)
Lemma conv_col_wf h f cn g : wf_frame f = true -> conv_col h f cn = Ok g -> wf_frame g = true.
Proof.
  unfold wf_frame. intros H Hg. apply andb_prop in H. destruct H as [H H3].
  apply andb_prop in H. destruct H as [H1 H2].
  destruct (conv_col_ok_sorted h f cn g H3 Hg) as [Hk [c [d [Hc [Hd ->]]]]].
  apply Forall2_length' in Hd.
  rewrite Hk, H3, andb_true_r. apply andb_true_intro. split.
  - (* rect *)
    assert (L : forall kc, In kc f -> fget f cn = Some c -> str_eqb cn (fst kc) = true -> snd kc = c).
    { clear - H3. induction f as [|[k1 c1] t IH]; intros kc Hin Hg E; [destruct Hin|].
      cbn [fget] in Hg. destruct Hin as [<-|Hin].
      - cbn [fst] in E. rewrite E in Hg. now inversion Hg.
      - apply str_eqb_eq in E. destruct (str_eqb cn k1) eqn:E1.
        + apply str_eqb_eq in E1. subst k1. exfalso.
          pose proof (sorted_head_lt cn t H3 kc Hin) as Lt. rewrite <- E in Lt. now rewrite str_ltb_irrefl in Lt.
        + apply IH; auto. now apply sorted_tail in H3. now apply str_eqb_eq. }
    unfold rect in *. rewrite forallb_forall in *. intros kc' Hin'.
    unfold replace_col in Hin'. apply in_map_iff in Hin'. destruct Hin' as [kc [E Hin]]. subst kc'.
    assert (N : nrows (replace_col cn (cname c, d) f) = nrows f).
    { destruct f as [|[k1 c1] t]; [reflexivity|]. unfold replace_col. cbn [map nrows fst].
      destruct (str_eqb cn k1) eqn:E; [|reflexivity]. cbn [cdata snd].
      pose proof (L (k1, c1) (or_introl eq_refl) Hc E) as X. cbn [snd] in X. subst c1. exact Hd. }
    rewrite N. destruct (str_eqb cn (fst kc)) eqn:E; [|now apply H1].
    cbn [snd cdata]. rewrite Hd. rewrite <- (L kc Hin Hc E). now apply H1.
  - (* names *)
    unfold names_ok in *. rewrite forallb_forall in *. intros kc' Hin'.
    unfold replace_col in Hin'. apply in_map_iff in Hin'. destruct Hin' as [kc [E Hin]]. subst kc'.
    destruct (str_eqb cn (fst kc)) eqn:E; [|now apply H2]. cbn [fst snd cname].
    assert (L : forall f0, fget f0 cn = Some c -> exists k, In (k, c) f0 /\ str_eqb cn k = true).
    { induction f0 as [|[k1 c1] t IH]; cbn [fget]; [discriminate|]. destruct (str_eqb cn k1) eqn:E1.
      - intros X. inversion X; subst. exists k1. split; [now left|assumption].
      - intros X. destruct (IH X) as [k [Hk' Ek]]. exists k. split; [now right|assumption]. }
    destruct (L f Hc) as [k [Hkin Ek]]. specialize (H2 _ Hkin). cbn [fst snd] in H2.
    apply str_eqb_eq in Ek. now subst k.
Qed.

(* AsType succeeded: the column existed, EVERY cell converted, and the result is f with
   that one column's data replaced by the converted cells (Name kept) *)
Theorem astype_atomic O f cn ty g : op_astype O f cn ty = Ok g ->
  exists c d, fget f cn = Some c
    /\ g = fset f cn (cname c, d)
    /\ Forall2 (fun x y => astype_cell O ty x = Ok y) (cdata c) d
    /\ d = map (fun x => match astype_cell O ty x with Ok y => y | _ => CNil end) (cdata c)
    /\ length d = length (cdata c)
    /\ (forall i x, nth_opt (cdata c) i = Some x ->
          exists y, nth_opt d i = Some y /\ astype_cell O ty x = Ok y)
    /\ fget g cn = Some (cname c, d)
    /\ (forall k, k <> cn -> fget g k = fget f k).
Proof. rewrite op_astype_conv. apply conv_col_ok. Qed.

(* on sorted keys: same keys, same order, every other entry identical *)
Theorem astype_atomic_sorted O f cn ty g :
  sorted_keys (fkeys f) = true -> op_astype O f cn ty = Ok g ->
  fkeys g = fkeys f
  /\ exists c d, fget f cn = Some c
     /\ Forall2 (fun x y => astype_cell O ty x = Ok y) (cdata c) d
     /\ g = replace_col cn (cname c, d) f.
Proof. rewrite op_astype_conv. apply conv_col_ok_sorted. Qed.

Theorem astype_wf O f cn ty g : wf_frame f = true -> op_astype O f cn ty = Ok g -> wf_frame g = true.
Proof. rewrite op_astype_conv. apply conv_col_wf. Qed.

(* AsType fails exactly when the column is missing or SOME cell does not convert;
   it never panics; no partial result exists (the outcome carries no frame) *)
Theorem astype_err_iff O f cn ty :
  op_astype O f cn ty = Err <->
  fget f cn = None \/ exists c x, fget f cn = Some c /\ In x (cdata c) /\ astype_cell O ty x = Err.
Proof. rewrite op_astype_conv. apply conv_col_err_iff. intros x. apply astype_cell_no_panic. Qed.

Theorem astype_never_panics O f cn ty : op_astype O f cn ty <> Panic.
Proof. rewrite op_astype_conv. apply conv_col_no_panic. intros x. apply astype_cell_no_panic. Qed.

Theorem astype_missing_col O f cn ty : fget f cn = None -> op_astype O f cn ty = Err.
Proof. intros H. unfold op_astype. now rewrite H. Qed.

Theorem datetime_atomic O f cn layout g : op_datetime O f cn layout = Ok g ->
  exists c d, fget f cn = Some c
    /\ g = fset f cn (cname c, d)
    /\ Forall2 (fun x y => datetime_cell O layout x = Ok y) (cdata c) d
    /\ d = map (fun x => match datetime_cell O layout x with Ok y => y | _ => CNil end) (cdata c)
    /\ length d = length (cdata c)
    /\ (forall i x, nth_opt (cdata c) i = Some x ->
          exists y, nth_opt d i = Some y /\ datetime_cell O layout x = Ok y)
    /\ fget g cn = Some (cname c, d)
    /\ (forall k, k <> cn -> fget g k = fget f k).
Proof. rewrite op_datetime_conv. apply conv_col_ok. Qed.

Theorem datetime_atomic_sorted O f cn layout g :
  sorted_keys (fkeys f) = true -> op_datetime O f cn layout = Ok g ->
  fkeys g = fkeys f
  /\ exists c d, fget f cn = Some c
     /\ Forall2 (fun x y => datetime_cell O layout x = Ok y) (cdata c) d
     /\ g = replace_col cn (cname c, d) f.
Proof. rewrite op_datetime_conv. apply conv_col_ok_sorted. Qed.

Theorem datetime_wf O f cn layout g :
  wf_frame f = true -> op_datetime O f cn layout = Ok g -> wf_frame g = true.
Proof. rewrite op_datetime_conv. apply conv_col_wf. Qed.

(* the per-cell rule of ToDatetime: strings the layout parses, nothing else *)
Lemma datetime_cell_ok_iff O layout v y :
  datetime_cell O layout v = Ok y <-> exists s t, v = CS s /\ tparse O layout s = Some t /\ y = CT t.
Proof.
  split.
  - destruct v; cbn [datetime_cell]; try discriminate. destruct (tparse O layout s) as [t|] eqn:E; [|discriminate].
    intros H. inversion H. eauto.
  - intros [s [t [-> [E ->]]]]. cbn [datetime_cell]. now rewrite E.
Qed.

Theorem datetime_err_iff O f cn layout :
  op_datetime O f cn layout = Err <->
  fget f cn = None \/ exists c x, fget f cn = Some c /\ In x (cdata c) /\ datetime_cell O layout x = Err.
Proof. rewrite op_datetime_conv. apply conv_col_err_iff. intros x. apply datetime_cell_no_panic. Qed.

Theorem datetime_never_panics O f cn layout : op_datetime O f cn layout <> Panic.
Proof. rewrite op_datetime_conv. apply conv_col_no_panic. intros x. apply datetime_cell_no_panic. Qed.

Theorem datetime_missing_col O f cn layout : fget f cn = None -> op_datetime O f cn layout = Err.
Proof. intros H. unfold op_datetime. now rewrite H. Qed.

(* ================================================================== *)
(* G. a failed call changes nothing: the pool after Err / Panic        *)
(* ================================================================== *)

Lemma derive_fail p r : fst (derive p r) = Err \/ fst (derive p r) = Panic -> snd (derive p r) = p.
Proof. destruct r; cbn; intros [H|H]; try discriminate; reflexivity. Qed.
Lemma edit_fail p i r : fst (edit p i r) = Err \/ fst (edit p i r) = Panic -> snd (edit p i r) = p.
Proof. destruct r; cbn; intros [H|H]; try discriminate; reflexivity. Qed.

Lemma step_fail_keeps O p o :
  fst (step O p o) = Err \/ fst (step O p o) = Panic -> snd (step O p o) = p.
Proof.
  destruct o; cbn [step]; try apply derive_fail; try apply edit_fail; try reflexivity.
  destruct (nth_opt p f); cbn; intros [H|H]; try discriminate; reflexivity.
Qed.

(* every operation of the public surface, not only the conversions *)
Theorem step_err_keeps O p o : fst (step O p o) = Err -> snd (step O p o) = p.
Proof. intros H. apply step_fail_keeps. now left. Qed.
Theorem step_panic_keeps O p o : fst (step O p o) = Panic -> snd (step O p o) = p.
Proof. intros H. apply step_fail_keeps. now right. Qed.

(* in particular a failed AsType / ToDatetime on frame i leaves frame i as it was *)
Corollary astype_step_atomic O p i cn ty f :
  nth_opt p i = Some f -> op_astype O f cn ty = Err ->
  step O p (OAstype i cn ty) = (Err, p).
Proof. intros Hf He. cbn [step]. unfold with_frame. rewrite Hf, He. reflexivity. Qed.
Corollary datetime_step_atomic O p i cn layout f :
  nth_opt p i = Some f -> op_datetime O f cn layout = Err ->
  step O p (ODatetime i cn layout) = (Err, p).
Proof. intros Hf He. cbn [step]. unfold with_frame. rewrite Hf, He. reflexivity. Qed.
(* and a successful one replaces frame i only *)
Corollary astype_step_ok O p i cn ty f g :
  nth_opt p i = Some f -> op_astype O f cn ty = Ok g ->
  step O p (OAstype i cn ty) = (Ok VNone, set_nth p i g).
Proof. intros Hf He. cbn [step]. unfold with_frame. rewrite Hf, He. reflexivity. Qed.

(* ---------- examples ---------- *)
Definition O1 : oracles :=
  Build_oracles [] []
    [(([89%N], [50; 48; 50; 52]%N), Some [2024; 1; 1; 0; 0; 0; 0; 0]);     (* layout "Y", "2024" *)
     (([89%N], [120%N]), None)].
Definition ex_conv : frame :=
  [([97%N], ([97%N], [CF KF64 (FFin (Z.shiftl 7 1073)); CF KF64 FNegZero; CF KF64 (FFin (- Z.shiftl 7 1073))]));
   ([98%N], ([98%N], [CF KF64 (FFin 0); CS [120%N]; CF KF64 (FFin 0)]));
   ([100%N], ([100%N], [CS [50; 48; 50; 52]%N; CS [50; 48; 50; 52]%N; CS [50; 48; 50; 52]%N]));
   ([101%N], ([101%N], [CS [50; 48; 50; 52]%N; CS [120%N]; CS [50; 48; 50; 52]%N]))].

Example astype_example :
  wf_frame ex_conv = true
  /\ op_astype O1 ex_conv [97%N] s_int
     = Ok (replace_col [97%N] ([97%N], [CI KInt 3; CI KInt 0; CI KInt (-3)]) ex_conv)
  /\ op_astype O1 ex_conv [98%N] s_int = Err          (* one text cell in the middle: nothing converted *)
  /\ op_astype O1 ex_conv [99%N] s_int = Err          (* no such column *)
  /\ step O1 [ex_conv] (OAstype 0 [98%N] s_int) = (Err, [ex_conv]).
Proof. vm_compute. repeat split. Qed.

Example datetime_example :
  op_datetime O1 ex_conv [100%N] [89%N]
    = Ok (replace_col [100%N] ([100%N], repeat (CT [2024; 1; 1; 0; 0; 0; 0; 0]) 3) ex_conv)
  /\ op_datetime O1 ex_conv [101%N] [89%N] = Err      (* the middle cell does not parse *)
  /\ op_datetime O1 ex_conv [97%N] [89%N] = Err       (* not strings *)
  /\ step O1 [ex_conv] (ODatetime 0 [101%N] [89%N]) = (Err, [ex_conv]).
Proof. vm_compute. repeat split. Qed.

Print Assumptions fillna_spec.
Print Assumptions fillna_no_nil.
Print Assumptions fillna_nonnil_untouched.
Print Assumptions fillna_wf.
Print Assumptions dropna_spec.
Print Assumptions dropna_keep_iff.
Print Assumptions dropna_keep_iff_cells.
Print Assumptions dropna_keep_sorted.
Print Assumptions dropna_never_panics.
Print Assumptions dropna_err_iff.
Print Assumptions dropna_rows.
Print Assumptions fl_trunc_fin.
Print Assumptions fl_trunc_bounds.
Print Assumptions astype_rule.
Print Assumptions astype_atomic.
Print Assumptions astype_atomic_sorted.
Print Assumptions astype_wf.
Print Assumptions astype_err_iff.
Print Assumptions astype_never_panics.
Print Assumptions astype_missing_col.
Print Assumptions datetime_atomic.
Print Assumptions datetime_atomic_sorted.
Print Assumptions datetime_wf.
Print Assumptions datetime_err_iff.
Print Assumptions datetime_never_panics.
Print Assumptions datetime_missing_col.
Print Assumptions step_err_keeps.
Print Assumptions step_panic_keeps.
