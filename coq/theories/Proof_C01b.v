(* Proof_C01b.v - C01 (frames stay rectangular), compound operations: every successful
   Join, Add, Apply (column- and row-wise), Describe, Resample, group aggregation,
   FromCSV and the CSV round trip yields a well-formed frame (one common column length,
   every column stored under its own Name, keys sorted and unique). *)
From GF Require Import Ops Csv Lemmas.
From Coq Require Import Lia.
Arguments N.eqb : simpl never.

(* ================================================================== *)
(* sorted association lists: fset / fget                               *)
(* ================================================================== *)

(* a is below the first key of l *)
Definition lb (a : str) (l : list str) : bool :=
  match l with [] => true | b :: _ => str_ltb a b end.

Lemma sorted_keys_cons a t : sorted_keys (a :: t) = lb a t && sorted_keys t.
Proof. destruct t as [|b t]; reflexivity. Qed.

Lemma str_compare_gt_ltb k k' : str_compare k k' = Gt -> str_ltb k' k = true.
Proof. intros H. unfold str_ltb. rewrite str_compare_antisym, H. reflexivity. Qed.

Lemma lb_fset {A} (f : list (str * A)) a k c :
  lb a (fkeys f) = true -> str_ltb a k = true -> lb a (fkeys (fset f k c)) = true.
Proof.
  destruct f as [|[k' c'] t]; cbn [fset]; intros H1 H2.
  - exact H2.
  - destruct (str_compare k k'); [exact H2 | exact H2 | exact H1].
Qed.

Lemma sorted_fset {A} (f : list (str * A)) k c :
  sorted_keys (fkeys f) = true -> sorted_keys (fkeys (fset f k c)) = true.
Proof.
  induction f as [|[k' c'] t IH]; intros H.
  - reflexivity.
  - cbn [fset]. change (fkeys ((k', c') :: t)) with (k' :: fkeys t) in H.
    rewrite sorted_keys_cons in H. apply andb_prop in H. destruct H as [Hl Hs].
    destruct (str_compare k k') eqn:E.
    + apply str_compare_eq in E. subst k'.
      change (fkeys ((k, c) :: t)) with (k :: fkeys t).
      rewrite sorted_keys_cons, Hl, Hs. reflexivity.
    + change (sorted_keys (k :: k' :: fkeys t) = true).
      rewrite sorted_keys_cons, sorted_keys_cons, Hl, Hs. cbn [lb].
      unfold str_ltb. rewrite E. reflexivity.
    + change (sorted_keys (k' :: fkeys (fset t k c)) = true).
      rewrite sorted_keys_cons, (IH Hs), lb_fset; auto.
      apply str_compare_gt_ltb. exact E.
Qed.

Lemma forallb_fset {A} (P : str * A -> bool) f k c :
  forallb P f = true -> P (k, c) = true -> forallb P (fset f k c) = true.
Proof.
  induction f as [|[k' c'] t IH]; cbn [fset forallb]; intros H Hp.
  - now rewrite Hp.
  - apply andb_prop in H. destruct H as [H1 H2].
    destruct (str_compare k k'); cbn [forallb].
    + now rewrite Hp, H2.
    + now rewrite Hp, H1, H2.
    + now rewrite H1, IH.
Qed.

Lemma In_fset {A} (f : list (str * A)) k0 c0 k c :
  In (k, c) (fset f k0 c0) -> (k, c) = (k0, c0) \/ In (k, c) f.
Proof.
  induction f as [|[k' c'] t IH]; cbn [fset]; intros H.
  - destruct H as [H|[]]. left. now symmetry.
  - destruct (str_compare k0 k').
    + destruct H as [H|H]; [left; now symmetry | right; right; exact H].
    + destruct H as [H|H]; [left; now symmetry | right; exact H].
    + destruct H as [H|H]; [right; left; exact H|].
      destruct (IH H) as [E|I]; [left; exact E | right; right; exact I].
Qed.

Lemma fget_fset {A} (f : list (str * A)) k c k' :
  fget (fset f k c) k' = if str_eqb k' k then Some c else fget f k'.
Proof.
  induction f as [|[k0 c0] t IH]; cbn [fset fget].
  - reflexivity.
  - destruct (str_compare k k0) eqn:E; cbn [fget].
    + apply str_compare_eq in E. subst k0. destruct (str_eqb k' k); reflexivity.
    + reflexivity.
    + rewrite IH. destruct (str_eqb k' k0) eqn:E0; [|reflexivity].
      destruct (str_eqb k' k) eqn:E1; [|reflexivity].
      apply str_eqb_eq in E0. apply str_eqb_eq in E1. subst k0. subst k'.
      assert (X : str_compare k k = Eq) by now apply str_compare_eq. congruence.
Qed.

Lemma fget_In {A} (f : list (str * A)) k c : fget f k = Some c -> In (k, c) f.
Proof.
  induction f as [|[k' c'] t IH]; cbn [fget]; intros H; [discriminate|].
  destruct (str_eqb k k') eqn:E.
  - apply str_eqb_eq in E. subst k'. injection H as ->. left. reflexivity.
  - right. apply IH. exact H.
Qed.

(* ================================================================== *)
(* well-formed with a given length                                     *)
(* ================================================================== *)

Definition wfn (n : nat) (f : frame) : bool :=
  forallb (fun kc => Nat.eqb (length (cdata (snd kc))) n) f && names_ok f && sorted_keys (fkeys f).

Lemma wf_wfn f : wf_frame f = wfn (nrows f) f.
Proof. reflexivity. Qed.

Lemma wfn_parts n f : wfn n f = true ->
  forallb (fun kc => Nat.eqb (length (cdata (snd kc))) n) f = true
  /\ names_ok f = true /\ sorted_keys (fkeys f) = true.
Proof.
  unfold wfn. intros H. apply andb_prop in H. destruct H as [H H3].
  apply andb_prop in H. destruct H as [H1 H2]. auto.
Qed.

Lemma wfn_intro n f :
  forallb (fun kc => Nat.eqb (length (cdata (snd kc))) n) f = true ->
  names_ok f = true -> sorted_keys (fkeys f) = true -> wfn n f = true.
Proof. unfold wfn. intros -> -> ->. reflexivity. Qed.

Lemma wfn_wf n f : wfn n f = true -> wf_frame f = true.
Proof.
  intros H. destruct f as [|[k c] t]; [reflexivity|].
  assert (E : nrows ((k, c) :: t) = n).
  { apply wfn_parts in H. destruct H as [H _]. cbn [forallb snd] in H.
    apply andb_prop in H. destruct H as [H _]. apply Nat.eqb_eq in H. exact H. }
  rewrite wf_wfn, E. exact H.
Qed.

Lemma wfn_nil n : wfn n [] = true.
Proof. reflexivity. Qed.

Lemma wfn_fset n f k d : wfn n f = true -> length d = n -> wfn n (fset f k (k, d)) = true.
Proof.
  intros H Hd. apply wfn_parts in H. destruct H as [H1 [H2 H3]].
  apply wfn_intro.
  - apply forallb_fset; [exact H1|]. cbn [snd cdata]. apply Nat.eqb_eq. exact Hd.
  - unfold names_ok. apply forallb_fset; [exact H2|]. cbn [fst snd cname]. apply str_eqb_refl.
  - apply sorted_fset. exact H3.
Qed.

Lemma wfn_single n k d : length d = n -> wfn n [(k, (k, d))] = true.
Proof. intros H. apply (wfn_fset n [] k d); [reflexivity | exact H]. Qed.

(* invariants of folds *)
Lemma fold_left_inv {A B} (P : A -> Prop) (g : A -> B -> A) l acc :
  P acc -> (forall a x, In x l -> P a -> P (g a x)) -> P (fold_left g l acc).
Proof.
  revert acc; induction l as [|x l IH]; intros acc H0 Hs; cbn [fold_left]; [exact H0|].
  apply IH.
  - apply Hs; [left; reflexivity | exact H0].
  - intros a y Hy. apply Hs. right. exact Hy.
Qed.

(* the general builder: inserting columns of the right length under their own names *)
Lemma wf_fold_fset {X} n (key : X -> str) (dat : X -> list cell) l acc :
  wfn n acc = true -> (forall x, In x l -> length (dat x) = n) ->
  wfn n (fold_left (fun a x => fset a (key x) (key x, dat x)) l acc) = true.
Proof.
  intros H0 Hl. apply (fold_left_inv (fun a => wfn n a = true)); [exact H0|].
  intros a x Hx Ha. apply wfn_fset; [exact Ha | apply Hl; exact Hx].
Qed.

Lemma wf_fold_fset_right {X} n (key : X -> str) (dat : X -> list cell) l acc :
  wfn n acc = true -> (forall x, In x l -> length (dat x) = n) ->
  wfn n (fold_right (fun x a => fset a (key x) (key x, dat x)) acc l) = true.
Proof.
  intros H0. induction l as [|x l IH]; intros Hl; cbn [fold_right]; [exact H0|].
  apply wfn_fset.
  - apply IH. intros y Hy. apply Hl. right. exact Hy.
  - apply Hl. left. reflexivity.
Qed.

Lemma wfn_frame_of_rows names rs : wfn (length rs) (frame_of_rows names rs) = true.
Proof.
  unfold frame_of_rows.
  apply (wf_fold_fset_right (length rs) (fun k => k) (fun k => map (fun r => rget r k) rs)).
  - reflexivity.
  - intros k _. apply map_length.
Qed.

Lemma wf_frame_of_rows names rs : wf_frame (frame_of_rows names rs) = true.
Proof. apply (wfn_wf (length rs)). apply wfn_frame_of_rows. Qed.

(* ================================================================== *)
(* out_all over a map                                                  *)
(* ================================================================== *)

Lemma out_all_map_inv {A B} (h : A -> out B) l r :
  out_all (map h l) = Ok r -> Forall2 (fun x y => h x = Ok y) l r.
Proof.
  revert r; induction l as [|x l IH]; intros r H; cbn [map out_all] in H.
  - injection H as <-. constructor.
  - destruct (h x) as [y| |] eqn:E; cbn [bind] in H; try discriminate.
    destruct (out_all (map h l)) as [r'| |]; cbn [bind] in H; try discriminate.
    injection H as <-. constructor; [exact E | apply IH; reflexivity].
Qed.

Lemma out_all_map_length {A B} (h : A -> out B) l r :
  out_all (map h l) = Ok r -> length r = length l.
Proof.
  intros H. apply out_all_map_inv in H.
  induction H as [|x y l r _ _ IH]; cbn [length]; [reflexivity | now rewrite IH].
Qed.

Lemma Forall2_forallb {A B} (R : A -> B -> Prop) (P : B -> bool) l r :
  Forall2 R l r -> (forall x y, In x l -> R x y -> P y = true) -> forallb P r = true.
Proof.
  induction 1 as [|x y l r Hxy HF IH]; intros H; cbn [forallb]; [reflexivity|].
  rewrite (H x y); [|left; reflexivity | exact Hxy]. cbn [andb].
  apply IH. intros x0 y0 Hin HR. apply (H x0 y0); [right; exact Hin | exact HR].
Qed.

Lemma Forall2_map_eq {A B C} (R : A -> B -> Prop) (p : B -> C) (q : A -> C) l r :
  Forall2 R l r -> (forall x y, In x l -> R x y -> p y = q x) -> map p r = map q l.
Proof.
  induction 1 as [|x y l r Hxy HF IH]; intros H; cbn [map]; [reflexivity|].
  rewrite (H x y); [|left; reflexivity | exact Hxy]. f_equal.
  apply IH. intros x0 y0 Hin HR. apply (H x0 y0); [right; exact Hin | exact HR].
Qed.

(* a column-by-column rebuild keeping the keys, every new column of length n *)
Lemma wfn_rebuild n (R : str * col -> str * col -> Prop) (f r : frame) :
  Forall2 R f r -> sorted_keys (fkeys f) = true ->
  (forall x y, In x f -> R x y -> exists d, y = (fst x, (fst x, d)) /\ length d = n) ->
  wfn n r = true.
Proof.
  intros HF Hs Hxy. apply wfn_intro.
  - apply (Forall2_forallb R _ f r HF). intros x y Hin HR.
    destruct (Hxy x y Hin HR) as [d [-> Hd]]. cbn [snd cdata]. apply Nat.eqb_eq. exact Hd.
  - unfold names_ok. apply (Forall2_forallb R _ f r HF). intros x y Hin HR.
    destruct (Hxy x y Hin HR) as [d [-> Hd]]. cbn [fst snd cname]. apply str_eqb_refl.
  - unfold fkeys in *. rewrite (Forall2_map_eq R fst fst f r HF); [exact Hs|].
    intros x y Hin HR. destruct (Hxy x y Hin HR) as [d [-> Hd]]. reflexivity.
Qed.

(* ================================================================== *)
(* Describe                                                            *)
(* ================================================================== *)

Lemma wfn_describe O f : wfn 4 (op_describe O f) = true.
Proof.
  unfold op_describe. apply (fold_left_inv (fun a => wfn 4 a = true)).
  - reflexivity.
  - intros a [k c] _ Ha. cbv zeta. cbn [fst snd].
    match goal with |- wfn _ (if ?b then _ else _) = true => destruct b end; [exact Ha|].
    apply wfn_fset; [exact Ha | reflexivity].
Qed.

Lemma wf_describe : forall O f, wf_frame (op_describe O f) = true.
Proof. intros O f. apply (wfn_wf 4). apply wfn_describe. Qed.

(* ================================================================== *)
(* FromCSV and the CSV round trip                                      *)
(* ================================================================== *)

Lemma wf_from_csv : forall O b g, op_from_csv O b = Ok g -> wf_frame g = true.
Proof.
  intros O b g. unfold op_from_csv.
  destruct (csv_parse b) as [[|header recs]|]; try discriminate.
  destruct (has_dup header); try discriminate.
  intros H. injection H as <-.
  apply (wfn_wf (length recs)).
  apply (wf_fold_fset (length recs) (fun ih : nat * str => snd ih)
           (fun ih => map (fun r => csv_cell O (nth_field r (fst ih))) recs)).
  - reflexivity.
  - intros ih _. apply map_length.
Qed.

Lemma wf_csv_roundtrip : forall O f b g,
  op_to_csv O f = Ok b -> op_from_csv O b = Ok g -> wf_frame g = true.
Proof. intros O f b g _ H. exact (wf_from_csv O b g H). Qed.

(* ================================================================== *)
(* group aggregation                                                   *)
(* ================================================================== *)

Lemma wf_group_agg_any : forall O f gk a cols g,
  op_group_agg O f gk a cols = Ok g -> wf_frame g = true.
Proof.
  intros O f gk a cols g. unfold op_group_agg.
  destruct (op_groupby O f gk) as [gr| |]; cbn [bind]; try discriminate.
  cbv zeta.
  match goal with |- (if ?b then _ else _) = _ -> _ => destruct b end; try discriminate.
  intros H. injection H as <-.
  apply (wfn_wf (length gr)).
  apply (wf_fold_fset (length gr) (fun cn : str => cn)
           (fun cn => map (fun kr : cell * list rowmap => group_value a (snd kr) cn) gr)).
  - apply wfn_single. apply map_length.
  - intros cn _. apply map_length.
Qed.

Lemma wf_group_agg : forall O f gk a cols g, wf_frame f = true ->
  op_group_agg O f gk a cols = Ok g -> wf_frame g = true.
Proof. intros O f gk a cols g _ H. exact (wf_group_agg_any O f gk a cols g H). Qed.

(* ================================================================== *)
(* Resample                                                            *)
(* ================================================================== *)

Lemma wf_resample_any : forall f tcol freq agg g,
  op_resample f tcol freq agg = Ok g -> wf_frame g = true.
Proof.
  intros f tcol freq agg g. unfold op_resample.
  destruct (fget f tcol) as [tc|]; try discriminate.
  destruct (freq_ok freq) as [fq|]; try discriminate.
  destruct (all_some (map (frow f) (seq 0 (nrows f)))) as [rs|]; try discriminate.
  destruct (all_some (map (fun r => time_of (rget r tcol)) rs)) as [ts|]; try discriminate.
  cbv zeta. intros H. injection H as <-.
  set (bs := map (fun t => trunc_time t fq) ts).
  set (buckets := fold_left (fun acc b => insert_time b acc) bs []).
  apply (wfn_wf (length buckets)).
  apply (wf_fold_fset (length buckets) (fun k : str => k)
           (fun k => map (fun b =>
              resample_fn agg (flat_map (fun rb : rowmap * list Z =>
                                  if zlist_eqb (snd rb) b then [rget (fst rb) k] else [])
                                (combine rs bs))) buckets)).
  - apply wfn_single. apply map_length.
  - intros k _. apply map_length.
Qed.

Lemma wf_resample : forall f tcol freq agg g, wf_frame f = true ->
  op_resample f tcol freq agg = Ok g -> wf_frame g = true.
Proof. intros f tcol freq agg g _ H. exact (wf_resample_any f tcol freq agg g H). Qed.

(* ================================================================== *)
(* Join                                                                *)
(* ================================================================== *)

Lemma wf_join_any : forall k f g0 key g, op_join k f g0 key = Ok g -> wf_frame g = true.
Proof.
  intros k f g0 key g. unfold op_join.
  destruct (negb (fhas f key) || negb (fhas g0 key)); try discriminate.
  intros H. injection H as <-. apply wf_frame_of_rows.
Qed.

Lemma wf_join : forall k f g0 key g, wf_frame f = true -> wf_frame g0 = true ->
  op_join k f g0 key = Ok g -> wf_frame g = true.
Proof. intros k f g0 key g _ _ H. exact (wf_join_any k f g0 key g H). Qed.

(* ================================================================== *)
(* Add                                                                 *)
(* ================================================================== *)

Lemma add_cols_length O fill a b d :
  add_cols O fill a b = Ok d -> length d = Nat.max (length a) (length b).
Proof.
  revert b d; induction a as [|x a IH]; intros [|y b] d H; cbn [add_cols] in H.
  - injection H as <-. reflexivity.
  - injection H as <-. cbn [length]. rewrite repeat_length. reflexivity.
  - injection H as <-. cbn [length]. rewrite repeat_length. reflexivity.
  - destruct (add_cell O x y) as [c| |]; cbn [bind] in H; try discriminate.
    destruct (add_cols O fill a b) as [r| |] eqn:E; cbn [bind] in H; try discriminate.
    injection H as <-. cbn [length]. rewrite (IH _ _ E). lia.
Qed.

Lemma forallb_In {A} (P : A -> bool) l x : forallb P l = true -> In x l -> P x = true.
Proof. intros H Hin. rewrite forallb_forall in H. apply H. exact Hin. Qed.

Lemma wf_add : forall O f g0 fill g, wf_frame f = true -> wf_frame g0 = true ->
  op_add O f g0 fill = Ok g -> wf_frame g = true.
Proof.
  intros O f g0 fill g Hf Hg. unfold op_add.
  destruct (negb (Nat.eqb (ncols f) (ncols g0))); try discriminate.
  destruct (negb (forallb (fhas g0) (fkeys f))); try discriminate.
  cbv zeta.
  match goal with |- context [out_all (map ?hh f)] => set (h := hh) end.
  destruct (out_all (map h f)) as [cols| |] eqn:E; cbn [bind]; try discriminate.
  intros H. injection H as <-.
  apply out_all_map_inv in E.
  rewrite wf_wfn in Hf, Hg. apply wfn_parts in Hf. apply wfn_parts in Hg.
  destruct Hf as [Hf1 [_ Hf3]]. destruct Hg as [Hg1 _].
  apply (wfn_wf (Nat.max (nrows f) (nrows g0))).
  apply (wfn_rebuild _ _ f cols E Hf3).
  intros [k c] y Hin Hy. subst h. cbn [fst snd] in Hy |- *.
  destruct (fget g0 k) as [c2|] eqn:G; try discriminate.
  destruct (add_cols O _ (cdata c) (cdata c2)) as [d| |] eqn:A; cbn [bind] in Hy; try discriminate.
  injection Hy as <-. exists d. split; [reflexivity|].
  rewrite (add_cols_length _ _ _ _ _ A).
  apply fget_In in G.
  pose proof (forallb_In _ _ _ Hf1 Hin) as L1. cbn [snd] in L1. apply Nat.eqb_eq in L1.
  pose proof (forallb_In _ _ _ Hg1 G) as L2. cbn [snd] in L2. apply Nat.eqb_eq in L2.
  rewrite L1, L2. reflexivity.
Qed.

(* ================================================================== *)
(* Apply                                                               *)
(* ================================================================== *)

(* Functions 10-13 of the menu return a slice of another length (10, 11: []interface{},
   12: []int, 13: []string), and column-wise Apply stores whatever slice it gets.  The length
   of the stored slice is a function of the function id and of the length of the column alone: *)
Definition apply_len (id n : nat) : nat :=
  match id with
  | 10%nat | 12%nat => Nat.div2 n
  | 11%nat | 13%nat => S n
  | _ => n
  end.

(* case analysis on a function id of the menu: ids 0 .. 15 one by one and a last case
   S^16 id (the default branch of apply_fn).  The menu currently ends at 14; the spare
   level falls into the default branch and is closed by the same tactics, so the menu can
   grow a little without the case analyses below having to be re-nested. *)
Ltac menu_cases id := do 16 (try (destruct id as [|id]; [|])).
(* a function of the menu may look at its argument before it decides what to return (id 14:
   `match x with CNil :: _ => RNilRes | _ => RAny (rev x) end`); split the argument into the
   shapes such a match distinguishes (empty / first cell by constructor) wherever the goal or
   a hypothesis still contains a match on it, so that the match reduces; the remaining
   occurrences of a non-empty argument are folded back into the variable (equation Earg), so
   that the reasoning that follows sees `rev x`, `length x` as for the other functions.  Does
   nothing for the functions that do not inspect their argument. *)
Ltac arg_split x :=
  let E := fresh "Earg" in let c := fresh "c" in let x' := fresh x in
  destruct x as [|c x'] eqn:E; [|destruct c; try rewrite <- E in *].
Ltac arg_cases x :=
  try match goal with
      | H : context [match x with nil => _ | cons _ _ => _ end] |- _ => arg_split x
      | |- context [match x with nil => _ | cons _ _ => _ end] => arg_split x
      end.

Lemma div2_le n : (Nat.div2 n <= n)%nat.
Proof. pose proof (Nat.div2_odd n) as H. lia. Qed.

Lemma apply_col_length_gen id d d' :
  apply_col id d = Ok d' -> length d' = apply_len id (length d).
Proof.
  unfold apply_col.
  menu_cases id; cbn [apply_fn apply_len]; intros H; arg_cases d;
    try discriminate; injection H as <-;
    rewrite ?map_length, ?app_length, ?map_length, ?rev_length, ?repeat_length, ?seq_length;
    try reflexivity.
  - apply firstn_length_le. apply div2_le.
  - cbn [length]. lia.
  - cbn [length]. lia.
Qed.

Lemma apply_len_keeps id n : fn_keeps_length id = true -> apply_len id n = n.
Proof.
  unfold fn_keeps_length.
  menu_cases id; cbn; intros H; try reflexivity; discriminate.
Qed.

(* the functions that keep the length: the new column is as long as the old one.
   Without the premise the statement is false:
   apply_col 11 [CNil] = Ok [CNil; CS s_k],  apply_col 10 [CNil; CNil] = Ok [CNil]. *)
Lemma apply_col_length id d d' : fn_keeps_length id = true ->
  apply_col id d = Ok d' -> length d' = length d.
Proof.
  intros Hk H. rewrite (apply_col_length_gen _ _ _ H). apply apply_len_keeps. exact Hk.
Qed.

Example apply_col_length_needs_premise :
  apply_col 11 [CNil] = Ok [CNil; CS s_k] /\ apply_col 10 [CNil; CNil] = Ok [CNil] /\
  fn_keeps_length 10 = false /\ fn_keeps_length 11 = false /\ fn_keeps_length 8 = true.
Proof. vm_compute. repeat split. Qed.
(* the same for the typed slices of another length (ids 12, 13) *)
Example apply_col_length_needs_premise_typed :
  apply_col 13 [CNil] = Ok [CS s_k; CS s_k] /\ apply_col 12 [CNil; CNil] = Ok [CI KInt 0] /\
  fn_keeps_length 12 = false /\ fn_keeps_length 13 = false /\ fn_keeps_length 14 = true.
Proof. vm_compute. repeat split. Qed.

(* Column-wise Apply on a well-formed frame: every column has nrows f cells, so every new
   column has apply_len id (nrows f) cells - the result is rectangular for EVERY function of
   the menu, also for the four (10-13) that change the length (all columns change alike).  No premise
   on the function is needed; the number of rows of the result is apply_len id (nrows f). *)
Lemma wfn_apply_col : forall id f g, wf_frame f = true ->
  op_apply_col id f = Ok g -> wfn (apply_len id (nrows f)) g = true.
Proof.
  intros id f g Hf. unfold op_apply_col.
  destruct (null f); try discriminate.
  match goal with |- context [out_all (map ?hh f)] => set (h := hh) end.
  destruct (out_all (map h f)) as [cols| |] eqn:E; cbn [bind]; try discriminate.
  intros H. injection H as <-.
  apply out_all_map_inv in E.
  rewrite wf_wfn in Hf. apply wfn_parts in Hf. destruct Hf as [Hf1 [_ Hf3]].
  apply (wfn_rebuild _ _ f cols E Hf3).
  intros [k c] y Hin Hy. subst h. cbn [fst snd] in Hy |- *.
  destruct (apply_col id (cdata c)) as [d| |] eqn:A; cbn [bind] in Hy; try discriminate.
  injection Hy as <-. exists d. split; [reflexivity|].
  rewrite (apply_col_length_gen _ _ _ A).
  pose proof (forallb_In _ _ _ Hf1 Hin) as L1. cbn [snd] in L1. apply Nat.eqb_eq in L1.
  rewrite L1. reflexivity.
Qed.

Lemma wf_apply_col : forall id f g, wf_frame f = true ->
  op_apply_col id f = Ok g -> wf_frame g = true.
Proof.
  intros id f g Hf H. apply (wfn_wf (apply_len id (nrows f))). exact (wfn_apply_col id f g Hf H).
Qed.

(* with a length-keeping function the number of rows is kept as well *)
Lemma wfn_apply_col_keeps : forall id f g, fn_keeps_length id = true -> wf_frame f = true ->
  op_apply_col id f = Ok g -> wfn (nrows f) g = true.
Proof.
  intros id f g Hk Hf H. rewrite <- (apply_len_keeps id (nrows f) Hk). exact (wfn_apply_col id f g Hf H).
Qed.

Lemma transpose_length nc rws : length (transpose nc rws) = nc.
Proof.
  revert rws; induction nc as [|k IH]; intros rws; cbn [transpose length]; [reflexivity|].
  now rewrite IH.
Qed.

Lemma transpose_In nc rws c : In c (transpose nc rws) -> length c = length rws.
Proof.
  revert rws; induction nc as [|k IH]; intros rws H; cbn [transpose] in H.
  - destruct H.
  - destruct H as [<-|H]; [apply map_length|].
    apply IH in H. rewrite map_length in H. exact H.
Qed.

Lemma map_fst_combine {A B} (a : list A) (b : list B) :
  length a = length b -> map fst (combine a b) = a.
Proof.
  revert b; induction a as [|x a IH]; intros [|y b] H; cbn [combine map fst length] in *;
    try discriminate; [reflexivity|].
  f_equal. apply IH. lia.
Qed.

(* only the sortedness of the keys of f is needed *)
Lemma wf_apply_row_sorted id f g : sorted_keys (fkeys f) = true ->
  op_apply_row id f = Ok g -> wf_frame g = true.
Proof.
  intros Hs. unfold op_apply_row. cbv zeta.
  destruct (all_some (map (frow f) (seq 0 (nrows f)))) as [rs|]; try discriminate.
  match goal with |- context [out_all ?l] => destruct (out_all l) as [res| |] end;
    cbn [bind]; try discriminate.
  destruct (null f); try discriminate.
  intros H. injection H as <-.
  apply (wfn_wf (length res)). apply wfn_intro.
  - rewrite forallb_forall. intros [k c] Hin.
    apply in_map_iff in Hin. destruct Hin as [[k' d] [E Hin]].
    cbn [fst snd] in E. injection E as <- <-. cbn [snd cdata].
    apply in_combine_r in Hin. apply transpose_In in Hin. apply Nat.eqb_eq. exact Hin.
  - unfold names_ok. rewrite forallb_forall. intros [k c] Hin.
    apply in_map_iff in Hin. destruct Hin as [[k' d] [E Hin]].
    cbn [fst snd] in E. injection E as <- <-. cbn [fst snd cname]. apply str_eqb_refl.
  - unfold fkeys. rewrite map_map.
    rewrite (map_ext _ fst) by (intros [k' d]; reflexivity).
    rewrite map_fst_combine; [exact Hs|].
    rewrite transpose_length. unfold fkeys, ncols. apply map_length.
Qed.

Lemma wf_apply_row : forall id f g, wf_frame f = true ->
  op_apply_row id f = Ok g -> wf_frame g = true.
Proof.
  intros id f g Hf H. rewrite wf_wfn in Hf. apply wfn_parts in Hf.
  destruct Hf as [_ [_ Hs]]. exact (wf_apply_row_sorted id f g Hs H).
Qed.

(* neither axis needs a premise on the function: row-wise every row result is cut to exactly
   ncols f cells (or the call is an error), column-wise all columns change length alike *)
Lemma wf_apply : forall id f axis g, wf_frame f = true ->
  op_apply id f axis = Ok g -> wf_frame g = true.
Proof.
  intros id f axis g Hf. unfold op_apply.
  destruct axis as [[|a l]|].
  - apply wf_apply_col. exact Hf.
  - destruct (a =? 0); [apply wf_apply_col | apply wf_apply_row]; exact Hf.
  - apply wf_apply_col. exact Hf.
Qed.

(* ================================================================== *)
(* concrete instances                                                  *)
(* ================================================================== *)

Definition O0 : oracles := Build_oracles [] [] [].
Definition n_a : str := [97]%N.   (* "a" *)
Definition n_b : str := [98]%N.   (* "b" *)
Definition n_k : str := [107]%N.  (* "k" *)
Definition v_x : cell := CS [120]%N.
Definition v_y : cell := CS [121]%N.
Definition v_z : cell := CS [122]%N.

Definition ex_f1 : frame :=
  [(n_a, (n_a, [CI KInt 1; CI KInt 2; CI KInt 3]));
   (n_k, (n_k, [v_x; v_y; v_x]))].
Definition ex_f2 : frame :=
  [(n_b, (n_b, [CF KF64 (fl_of_Z 5); CNil]));
   (n_k, (n_k, [v_x; v_z]))].

(* the hypotheses of wf_join / wf_group_agg / wf_add / wf_apply are met by concrete frames,
   the operations succeed on them with a non-empty result, and the result is well formed *)
Example ex_join :
  wf_frame ex_f1 = true /\ wf_frame ex_f2 = true /\
  match op_join JOuter ex_f1 ex_f2 n_k with
  | Ok g => wf_frame g && Nat.eqb (ncols g) 3 && Nat.eqb (nrows g) 4
  | _ => false end = true /\
  match op_join JInner ex_f1 ex_f2 n_k with
  | Ok g => wf_frame g && Nat.eqb (ncols g) 3 && Nat.eqb (nrows g) 2
  | _ => false end = true.
Proof. vm_compute. repeat split. Qed.

Example ex_group_agg :
  wf_frame ex_f1 = true /\
  match op_group_agg O0 ex_f1 (GOne n_k) GSum [] with
  | Ok g => wf_frame g && Nat.eqb (ncols g) 2 && Nat.eqb (nrows g) 2
  | _ => false end = true /\
  match op_group_agg O0 ex_f1 (GList [n_k; n_a]) GCount [n_a] with
  | Ok g => wf_frame g && Nat.eqb (ncols g) 2 && Nat.eqb (nrows g) 3
  | _ => false end = true.
Proof. vm_compute. repeat split. Qed.

Example ex_add_apply_describe :
  match op_add O0 ex_f1 ex_f1 None with
  | Ok g => wf_frame g && Nat.eqb (ncols g) 2 && Nat.eqb (nrows g) 3
  | _ => false end = true /\
  match op_apply 1 ex_f1 (Some [1]) with
  | Ok g => wf_frame g && Nat.eqb (ncols g) 2 && Nat.eqb (nrows g) 3
  | _ => false end = true /\
  match op_apply 4 ex_f1 None with
  | Ok g => wf_frame g && Nat.eqb (ncols g) 2 && Nat.eqb (nrows g) 3
  | _ => false end = true /\
  match op_apply 10 ex_f1 None with     (* the shortening function: 3 rows become 1 *)
  | Ok g => wf_frame g && Nat.eqb (ncols g) 2 && Nat.eqb (nrows g) 1
  | _ => false end = true /\
  match op_apply 11 ex_f1 (Some [0]) with   (* the lengthening function: 3 rows become 4 *)
  | Ok g => wf_frame g && Nat.eqb (ncols g) 2 && Nat.eqb (nrows g) 4
  | _ => false end = true /\
  match op_apply 11 ex_f1 (Some [1]) with   (* row-wise: the extra cell is cut off *)
  | Ok g => wf_frame g && Nat.eqb (ncols g) 2 && Nat.eqb (nrows g) 3
  | _ => false end = true /\
  op_apply 10 ex_f1 (Some [1]) = Err /\     (* row-wise: too few cells is an error *)
  wf_frame (op_describe O0 ex_f1) && Nat.eqb (ncols (op_describe O0 ex_f1)) 2 = true.
Proof. vm_compute. repeat split. Qed.

(* "k,a\nx,1\ny,2\n" *)
Example ex_from_csv :
  match op_from_csv O0 [107; 44; 97; 10; 120; 44; 49; 10; 121; 44; 50; 10]%N with
  | Ok g => wf_frame g && Nat.eqb (ncols g) 2 && Nat.eqb (nrows g) 2
  | _ => false end = true /\
  match op_to_csv O0 ex_f1 with
  | Ok b => match op_from_csv O0 b with
            | Ok g => wf_frame g && Nat.eqb (ncols g) 2 && Nat.eqb (nrows g) 3
            | _ => false end
  | _ => false end = true.
Proof. vm_compute. repeat split. Qed.

Definition n_t : str := [116]%N.  (* "t" *)
Definition ex_f3 : frame :=
  [(n_a, (n_a, [CI KInt 1; CI KInt 2; CI KInt 3]));
   (n_t, (n_t, [CT [2024; 1; 5; 10; 0; 0; 0; 0]; CT [2024; 1; 7; 11; 0; 0; 0; 0];
                CT [2024; 2; 1; 0; 0; 0; 0; 0]]))].
Example ex_resample :
  wf_frame ex_f3 = true /\
  match op_resample ex_f3 n_t [77]%N 3 with
  | Ok g => wf_frame g && Nat.eqb (ncols g) 2 && Nat.eqb (nrows g) 2
  | _ => false end = true.
Proof. vm_compute. repeat split. Qed.

Print Assumptions wf_join.
Print Assumptions wf_add.
Print Assumptions wf_apply.
Print Assumptions wf_apply_col.
Print Assumptions wf_apply_row.
Print Assumptions wf_describe.
Print Assumptions wf_resample.
Print Assumptions wf_group_agg.
Print Assumptions wf_from_csv.
Print Assumptions wf_csv_roundtrip.
