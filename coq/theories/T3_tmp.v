From GF Require Import Ops Lemmas Heap Step Proof_C02 Proof_C01 Proof_C02b.
From Coq Require Import Lia Permutation.
Local Open Scope nat_scope.
(* ====================================================================== *)
(* 6. the hypotheses are met: a concrete history                            *)
(* ====================================================================== *)
Definition O0 : oracles := {| o_pf := []; o_fmt := []; o_tparse := [] |}.
Definition key_c : str := [99%N].
Definition f0 : frame :=
  [(key_a, (key_a, [CI KInt 1; CNil; CI KInt 3])); (key_b, (key_b, [CS key_a; CB true; CNil]))].
(* 21 operations: derivations of both kinds, observations, every covered edit, two failing
   calls (Rename onto an existing name, AddDatetimeIndex on a non-string column) *)
Definition os0 : list op :=
  [OHead 0 2; OAppendRow 1 [(key_a, CI KInt 100)]; OTail 0 1; OFillNa 0 (CI KInt 9);
   OSetCell 1 key_a 0%Z (CB true); ODropRow 0 0%Z; OShift 1 1%Z; OFilter 0 [true; false];
   OSort 0 [key_a] None; OJoin JOuter 0 1 key_a; ODropNa 1; OAstype 0 key_a s_string;
   ODedup 0 false [] []; ODedupInplace 2 [] []; OGroupAgg 0 (GOne key_b) GCount [];
   ORowSlice 0 0%Z 1%Z; ONrows 0; ORename 0 key_a key_b; ODatetime 0 key_a [];
   OApply 1 1 None; OMultiSelect 0 [key_b]].

(* C02_step_refines: its hypotheses hold of a concrete state and operation, and both sides
   of its conclusion are the same concrete pool *)
Example ex_step_refines :
  let st := load grow_double [f0] in
  sepb st = true /\ erase_pool [f0] = abs_state st /\
  exists ops, compile O0 [f0] (OTail 0 2) = Some ops /\ length ops = 1 /\
    abs_state (fold_left (l2_step grow_double) ops st)
    = [[(key_a, [CI KInt 1; CNil; CI KInt 3]); (key_b, [CS key_a; CB true; CNil])];
       [(key_a, [CNil; CI KInt 3]); (key_b, [CB true; CNil])]] /\
    erase_pool (snd (step O0 [f0] (OTail 0 2)))
    = abs_state (fold_left (l2_step grow_double) ops st).
Proof.
  cbv zeta. split; [vm_compute; reflexivity|]. split; [vm_compute; reflexivity|].
  eexists. split; [vm_compute; reflexivity|].
  split; [vm_compute; reflexivity|]. split; vm_compute; reflexivity.
Qed.

(* C02_histories_refine / C02_l1_run: the history compiles (to 20 slice-level operations),
   the pool is well formed, and - computed, not deduced - the slice-level run is separated
   at the end and shows the 12 frames of the L1 run *)
Example ex_history_hyps :
  wf_pool [f0] = true /\ run_ok O0 [f0] os0 = true /\ compiles_all O0 [f0] os0 = true /\
  uncovered_any O0 [f0] os0 = false.
Proof. vm_compute. repeat split. Qed.
Example ex_history_run :
  exists l2, compile_all O0 [f0] os0 = Some l2 /\ length l2 = 20 /\
    sepb (fold_left (l2_step grow_double) l2 (load grow_double [f0])) = true /\
    abs_state (fold_left (l2_step grow_double) l2 (load grow_double [f0])) = erase_pool (run O0 [f0] os0) /\
    length (run O0 [f0] os0) = 12 /\
    nth_opt (erase_pool (run O0 [f0] os0)) 1 = Some [(key_a, [CB true]); (key_b, [CS key_a])].
Proof.
  eexists. split; [vm_compute; reflexivity|].
  split; [vm_compute; reflexivity|]. split; [vm_compute; reflexivity|].
  split; [vm_compute; reflexivity|]. split; vm_compute; reflexivity.
Qed.
