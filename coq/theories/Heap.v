(* Heap.v - the L2 (pointer-level) model behind property C02: Go slices as views
   (array, offset, len, cap) into a store of backing arrays, the slice primitives
   (index, index-assign, reslice, append, make, copy) with an arbitrary growth
   policy, frames as maps from column keys to data slices, a pool of live frames,
   the L2 transcriptions of the deriving and editing DataFrame operations, the
   abstraction to contents and the separation invariant.  Definitions only. *)
From GF Require Export Frame.
Local Open Scope nat_scope.

(* ---------- store and slices ---------- *)
Record slice := { arr : nat; off : nat; len : nat; cap : nat }.
Definition heap := list (list cell).            (* array id -> cells; arrays never shrink *)

Fixpoint upd (h : heap) (a : nat) (f : list cell -> list cell) : heap :=
  match h, a with
  | [], _ => []
  | x :: t, O => f x :: t
  | x :: t, S k => x :: upd t k f
  end.

Definition arr_of (h : heap) (a : nat) : list cell := nth a h [].

(* the cells a slice shows *)
Definition content (h : heap) (s : slice) : list cell :=
  firstn (len s) (skipn (off s) (arr_of h (arr s))).

Definition wf_slice (h : heap) (s : slice) : Prop :=
  arr s < length h /\ len s <= cap s /\ off s + cap s <= length (arr_of h (arr s)).
Definition wf_sliceb (h : heap) (s : slice) : bool :=
  (arr s <? length h) && (len s <=? cap s) && (off s + cap s <=? length (arr_of h (arr s))).

(* write l into a at position p (memmove semantics: l is a value, so overlap is harmless) *)
Definition blit (a : list cell) (p : nat) (l : list cell) : list cell :=
  firstn p a ++ l ++ skipn (p + length l) a.

Section Prims.
(* growth policy of append: grow c n is the capacity chosen when a slice of capacity c
   must hold n cells.  The only fact the proofs use is  grow c n >= n. *)
Variable grow : nat -> nat -> nat.

(* s[i] *)
Definition sl_get (h : heap) (s : slice) (i : nat) : option cell := nth_opt (content h s) i.
(* s[i] = v *)
Definition sl_set (h : heap) (s : slice) (i : nat) (v : cell) : heap :=
  upd h (arr s) (fun a => set_nth a (off s + i) v).
(* s[a:b] : shares the array *)
Definition sl_reslice (s : slice) (a b : nat) : slice :=
  {| arr := arr s; off := off s + a; len := b - a; cap := cap s - a |}.
(* a fresh array holding l, with whatever spare capacity the policy gives:
   "build a slice by appending the cells of l to an empty slice" *)
Definition sl_from_list (h : heap) (l : list cell) : heap * slice :=
  let c := grow 0 (length l) in
  (h ++ [l ++ repeat CNil (c - length l)],
   {| arr := length h; off := 0; len := length l; cap := c |}).
(* make([]any, n) *)
Definition sl_make (h : heap) (n : nat) : heap * slice :=
  (h ++ [repeat CNil n], {| arr := length h; off := 0; len := n; cap := n |}).
(* append([]any{}, s...) *)
Definition sl_copy (h : heap) (s : slice) : heap * slice := sl_from_list h (content h s).
(* append(s, v): in place iff len < cap *)
Definition sl_append (h : heap) (s : slice) (v : cell) : heap * slice :=
  if len s <? cap s then
    (sl_set h s (len s) v, {| arr := arr s; off := off s; len := S (len s); cap := cap s |})
  else
    let c := grow (cap s) (S (len s)) in
    (h ++ [content h s ++ v :: repeat CNil (c - S (len s))],
     {| arr := length h; off := 0; len := S (len s); cap := c |}).
(* append(s, l...): in place iff len + |l| <= cap *)
Definition sl_append_list (h : heap) (s : slice) (l : list cell) : heap * slice :=
  if len s + length l <=? cap s then
    (upd h (arr s) (fun a => blit a (off s + len s) l),
     {| arr := arr s; off := off s; len := len s + length l; cap := cap s |})
  else
    let n := len s + length l in
    let c := grow (cap s) n in
    (h ++ [content h s ++ l ++ repeat CNil (c - n)],
     {| arr := length h; off := 0; len := n; cap := c |}).
(* d = append(d[:i], d[i+1:]...) : DropRow on one column; shifts the tail left inside the
   same array, len shrinks by one, the cell at the old last position keeps its stale value *)
Definition sl_remove (h : heap) (s : slice) (i : nat) : heap * slice :=
  if i <? len s
  then sl_append_list h (sl_reslice s 0 i) (content h (sl_reslice s (S i) (len s)))
  else (h, s).
(* for i, x := range s { if x == nil { s[i] = v } } *)
Definition sl_fill (h : heap) (s : slice) (v : cell) : heap :=
  fold_left (fun h' i => match sl_get h' s i with
                         | Some c => if is_nil c then sl_set h' s i v else h'
                         | None => h'
                         end) (seq 0 (len s)) h.

(* ---------- frames and the pool ---------- *)
Definition l2frame := list (str * slice).       (* column key -> Data slice *)
Record l2state := { hp : heap; frames : list l2frame }.

Definition slices_of (fr : l2frame) : list slice := map snd fr.
Definition all_slices (frs : list l2frame) : list slice := flat_map slices_of frs.
Definition slot (st : l2state) (i j : nat) : option slice :=
  match nth_opt (frames st) i with
  | Some fr => option_map snd (nth_opt fr j)
  | None => None
  end.

(* abstraction: what the frames contain *)
Definition aframe := list (str * list cell).
Definition apool := list aframe.
Definition abs_frame (h : heap) (fr : l2frame) : aframe :=
  map (fun ks => (fst ks, content h (snd ks))) fr.
Definition abs_state (st : l2state) : apool := map (abs_frame (hp st)) (frames st).

(* separation: every live slice lies inside its array, and two different
   (frame, column) slots never use the same array *)
Definition Sep (st : l2state) : Prop :=
  Forall (wf_slice (hp st)) (all_slices (frames st)) /\
  NoDup (map arr (all_slices (frames st))).
Fixpoint nodupb (l : list nat) : bool :=
  match l with
  | [] => true
  | x :: t => negb (existsb (Nat.eqb x) t) && nodupb t
  end.
Definition sepb (st : l2state) : bool :=
  forallb (wf_sliceb (hp st)) (all_slices (frames st)) &&
  nodupb (map arr (all_slices (frames st))).

(* run a per-column step over the columns of a frame, threading the store *)
Fixpoint fold_cols {A} (e : str -> heap -> A -> heap * slice) (h : heap) (l : list (str * A))
  : heap * l2frame :=
  match l with
  | [] => (h, [])
  | (k, a) :: t =>
    let hs := e k h a in
    let r := fold_cols e (fst hs) t in
    (fst r, (k, snd hs) :: snd r)
  end.

(* an edit of live frame f: every column is replaced by the step's result slice *)
Definition l2_edit (e : str -> heap -> slice -> heap * slice) (f : nat) (st : l2state) : l2state :=
  match nth_opt (frames st) f with
  | None => st
  | Some fr =>
    let r := fold_cols e (hp st) fr in
    {| hp := fst r; frames := set_nth (frames st) f (snd r) |}
  end.
(* a derivation from live frame f: the result joins the pool at the end *)
Definition l2_derive (e : str -> heap -> slice -> heap * slice) (f : nat) (st : l2state) : l2state :=
  match nth_opt (frames st) f with
  | None => st
  | Some fr =>
    let r := fold_cols e (hp st) fr in
    {| hp := fst r; frames := frames st ++ [snd r] |}
  end.

(* ---------- derivations by copy ---------- *)
(* Head(n), repaired: n is first clamped to Nrows(), then every column becomes
   append([]any{}, col.Data[:n]...).  The clamp is taken per column (the same number on
   a rectangular frame). *)
Definition head_step (n : nat) : str -> heap -> slice -> heap * slice :=
  fun _ h s => sl_copy h (sl_reslice s 0 (Nat.min n (len s))).
Definition l2_head (f n : nat) := l2_derive (head_step n) f.
(* Tail(n), repaired: append([]any{}, col.Data[Nrows-n:]...) *)
Definition tail_step (n : nat) : str -> heap -> slice -> heap * slice :=
  fun _ h s => sl_copy h (sl_reslice s (len s - n) (len s)).
Definition l2_tail (f n : nat) := l2_derive (tail_step n) f.
(* every column of the result is a fresh array holding g (content of the source column):
   Filter, RowSlice, Loc, Iloc, Shift, Apply, SortValues (copy then permute),
   MultiSelect, DropDuplicates, ... *)
Definition fresh_step (g : list cell -> list cell) : str -> heap -> slice -> heap * slice :=
  fun _ h s => sl_from_list h (g (content h s)).
Definition l2_derive_fresh (f : nat) (g : list cell -> list cell) := l2_derive (fresh_step g) f.
(* SortValues-like: copy every column, then write the permuted cells into the copies *)
Definition sort_step (p : list cell -> list cell) : str -> heap -> slice -> heap * slice :=
  fun _ h s =>
    let hs := sl_copy h s in
    let s1 := snd hs in
    (upd (fst hs) (arr s1) (fun a => blit a (off s1) (firstn (len s1) (p (content (fst hs) s1)))), s1).
Definition l2_sort (f : nat) (p : list cell -> list cell) := l2_derive (sort_step p) f.
(* the most general copying derivation: the new frame's columns are fresh arrays holding
   whatever G computes from the contents of the whole pool (joins, Add, Describe,
   Resample, grouped aggregates: other column sets, two sources) *)
Definition l2_derive_pool (G : apool -> aframe) (st : l2state) : l2state :=
  let r := fold_cols (fun _ h l => sl_from_list h l) (hp st) (G (abs_state st)) in
  {| hp := fst r; frames := frames st ++ [snd r] |}.

(* ---------- derivation by alias: the historical Head (defect D4) ---------- *)
Definition head_alias_step (n : nat) : str -> heap -> slice -> heap * slice :=
  fun _ h s => (h, sl_reslice s 0 (Nat.min n (len s))).
Definition l2_head_alias (f n : nat) := l2_derive (head_alias_step n) f.

(* ---------- edits in place ---------- *)
(* df.Columns[k].Data[i] = v   (an out-of-range i is an error and writes nothing) *)
Definition setcell_step (k0 : str) (i : nat) (v : cell) : str -> heap -> slice -> heap * slice :=
  fun k h s => if str_eqb k0 k then (if i <? len s then sl_set h s i v else h, s) else (h, s).
Definition l2_setcell (f : nat) (k : str) (i : nat) (v : cell) := l2_edit (setcell_step k i v) f.
(* FillNa(v) *)
Definition fillna_step (v : cell) : str -> heap -> slice -> heap * slice :=
  fun _ h s => (sl_fill h s v, s).
Definition l2_fillna (f : nat) (v : cell) := l2_edit (fillna_step v) f.
(* AppendRow(r): col.Data = append(col.Data, r[key]) for every column (a key absent from
   r gives nil).  AppendRow's creation of new columns for unknown keys is not included. *)
Definition append_row_step (r : rowmap) : str -> heap -> slice -> heap * slice :=
  fun k h s => sl_append h s (rget r k).
Definition l2_append_row (f : nat) (r : rowmap) := l2_edit (append_row_step r) f.
(* DropRow(i) *)
Definition droprow_step (i : nat) : str -> heap -> slice -> heap * slice :=
  fun _ h s => sl_remove h s i.
Definition l2_droprow (f i : nat) := l2_edit (droprow_step i) f.
(* col.Data = <fresh slice holding g(old data)> for the column k:
   DropNa (once per column), Astype, AddDatetimeIndex, in-place DropDuplicates *)
Definition replace_col_step (k0 : str) (g : list cell -> list cell)
  : str -> heap -> slice -> heap * slice :=
  fun k h s => if str_eqb k0 k then sl_from_list h (g (content h s)) else (h, s).
Definition l2_replace_col (f : nat) (k : str) (g : list cell -> list cell) :=
  l2_edit (replace_col_step k g) f.

(* ---------- the operation type and the step function ---------- *)
Inductive l2op :=
| L2Head (f n : nat)
| L2Tail (f n : nat)
| L2DeriveFresh (f : nat) (g : list cell -> list cell)
| L2Sort (f : nat) (p : list cell -> list cell)
| L2DerivePool (G : apool -> aframe)
| L2SetCell (f : nat) (k : str) (i : nat) (v : cell)
| L2FillNa (f : nat) (v : cell)
| L2AppendRow (f : nat) (r : rowmap)
| L2DropRow (f i : nat)
| L2ReplaceCol (f : nat) (k : str) (g : list cell -> list cell).

Definition l2_step (st : l2state) (o : l2op) : l2state :=
  match o with
  | L2Head f n => l2_head f n st
  | L2Tail f n => l2_tail f n st
  | L2DeriveFresh f g => l2_derive_fresh f g st
  | L2Sort f p => l2_sort f p st
  | L2DerivePool G => l2_derive_pool G st
  | L2SetCell f k i v => l2_setcell f k i v st
  | L2FillNa f v => l2_fillna f v st
  | L2AppendRow f r => l2_append_row f r st
  | L2DropRow f i => l2_droprow f i st
  | L2ReplaceCol f k g => l2_replace_col f k g st
  end.
End Prims.

(* ---------- the same operations on contents (the column level of the L1 model) ---------- *)
Definition amap (g : str -> list cell -> list cell) (af : aframe) : aframe :=
  map (fun kc => (fst kc, g (fst kc) (snd kc))) af.
Definition a_edit (g : str -> list cell -> list cell) (f : nat) (P : apool) : apool :=
  match nth_opt P f with None => P | Some af => set_nth P f (amap g af) end.
Definition a_derive (g : str -> list cell -> list cell) (f : nat) (P : apool) : apool :=
  match nth_opt P f with None => P | Some af => P ++ [amap g af] end.

Definition fill_cell (v c : cell) : cell := if is_nil c then v else c.
(* c overwritten from its start by l, as far as l fits; it is l when the lengths agree
   (a sort permutes) *)
Definition overwrite (c l : list cell) : list cell :=
  firstn (length c) l ++ skipn (length (firstn (length c) l)) c.
(* Ops.v: op_head = firstn k, op_tail = skipn (nrows - k), op_setcell = set_nth,
   op_fillna = map (fun c => if is_nil c then v else c), op_append_row = ++ [rget r key],
   op_droprow = remove_nth *)
Definition a_step (P : apool) (o : l2op) : apool :=
  match o with
  | L2Head f n => a_derive (fun _ c => firstn n c) f P
  | L2Tail f n => a_derive (fun _ c => skipn (length c - n) c) f P
  | L2DeriveFresh f g => a_derive (fun _ => g) f P
  | L2Sort f p => a_derive (fun _ c => overwrite c (p c)) f P
  | L2DerivePool G => P ++ [G P]
  | L2SetCell f k i v => a_edit (fun k' c => if str_eqb k k' then set_nth c i v else c) f P
  | L2FillNa f v => a_edit (fun _ c => map (fill_cell v) c) f P
  | L2AppendRow f r => a_edit (fun k c => c ++ [rget r k]) f P
  | L2DropRow f i => a_edit (fun _ c => remove_nth c i) f P
  | L2ReplaceCol f k g => a_edit (fun k' c => if str_eqb k k' then g c else c) f P
  end.

(* which live frame an operation edits (None: it derives a new frame and edits nothing) *)
Definition edit_target (o : l2op) : option nat :=
  match o with
  | L2SetCell f _ _ _ | L2FillNa f _ | L2AppendRow f _ | L2DropRow f _ | L2ReplaceCol f _ _ => Some f
  | _ => None
  end.
(* the column-level function of an edit *)
Definition edit_fn (o : l2op) : str -> list cell -> list cell :=
  match o with
  | L2SetCell _ k i v => fun k' c => if str_eqb k k' then set_nth c i v else c
  | L2FillNa _ v => fun _ c => map (fill_cell v) c
  | L2AppendRow _ r => fun k c => c ++ [rget r k]
  | L2DropRow _ i => fun _ c => remove_nth c i
  | L2ReplaceCol _ k g => fun k' c => if str_eqb k k' then g c else c
  | _ => fun _ c => c
  end.
