(* Proof_C14.v - SQL import (fromSQLRows) under the NULL policy: the result is a well-formed
   frame or an error, never a partial frame; the NULL handlers; skip_row keeps exactly the
   rows without NULL; declared type names; ParseDates. *)
From GF Require Import SqlCorr Lemmas.
From Coq Require Import Lia.
Require Coq.Strings.String.
Import Coq.Strings.String.StringSyntax.
Arguments N.eqb : simpl never.

(* ------------------------------------------------------------------------- *)
(* finite maps and well-formed frames                                         *)
(* ------------------------------------------------------------------------- *)

Lemma fget_fset_same {A} (f : list (str * A)) k c : fget (fset f k c) k = Some c.
Proof.
  induction f as [|[k0 c0] r IH]; cbn [fset fget].
  - now rewrite str_eqb_refl.
  - destruct (str_compare k k0) eqn:C; cbn [fget].
    + now rewrite str_eqb_refl.
    + now rewrite str_eqb_refl.
    + assert (E : str_eqb k k0 = false).
      { apply str_eqb_neq. intros ->. assert (X : str_compare k0 k0 = Eq) by now apply str_compare_eq. congruence. }
      now rewrite E.
Qed.

Lemma fget_fset_other {A} (f : list (str * A)) k k' c : k' <> k -> fget (fset f k c) k' = fget f k'.
Proof.
  intros Hne. apply str_eqb_neq in Hne.
  induction f as [|[k0 c0] r IH]; cbn [fset fget].
  - now rewrite Hne.
  - destruct (str_compare k k0) eqn:C; cbn [fget].
    + apply str_compare_eq in C. subst k0. now rewrite Hne.
    + now rewrite Hne.
    + now rewrite IH.
Qed.

Lemma fhas_fset {A} (f : list (str * A)) k k' c : fhas (fset f k' c) k = str_eqb k k' || fhas f k.
Proof.
  unfold fhas. destruct (str_eqb k k') eqn:E.
  - apply str_eqb_eq in E. subst k'. now rewrite fget_fset_same.
  - apply str_eqb_neq in E. now rewrite fget_fset_other.
Qed.

Lemma sk_cons2 a b t : sorted_keys (a :: b :: t) = str_ltb a b && sorted_keys (b :: t).
Proof. reflexivity. Qed.

Lemma sk_tail a t : sorted_keys (a :: t) = true -> sorted_keys t = true.
Proof.
  destruct t as [|b t]; [reflexivity|]. rewrite sk_cons2. intros H.
  apply andb_prop in H. now destruct H.
Qed.

Lemma sk_head_lt a t : sorted_keys (a :: t) = true -> forall x, In x t -> str_ltb a x = true.
Proof.
  revert a. induction t as [|b t IH]; intros a H x Hin; [destruct Hin|].
  rewrite sk_cons2 in H. apply andb_prop in H. destruct H as [Hab Ht].
  destruct Hin as [<-|Hin]; [assumption|].
  apply str_ltb_trans with (b := b); [assumption|]. now apply IH.
Qed.

Lemma sk_cons a t : sorted_keys t = true -> (forall x, In x t -> str_ltb a x = true) ->
  sorted_keys (a :: t) = true.
Proof.
  intros Ht Ha. destruct t as [|b t]; [reflexivity|].
  rewrite sk_cons2, Ht, (Ha b) by now left. reflexivity.
Qed.

Lemma fset_in {A} (f : list (str * A)) k c k' c' :
  In (k', c') (fset f k c) -> (k', c') = (k, c) \/ In (k', c') f.
Proof.
  induction f as [|[k0 c0] t IH]; cbn [fset].
  - intros [H|[]]. now left.
  - destruct (str_compare k k0).
    + intros [H|H]; [now left | right; now right].
    + intros [H|H]; [now left | now right].
    + intros [H|H]; [right; now left|]. destruct (IH H) as [H'|H']; [now left | right; now right].
Qed.

Lemma fset_key_in {A} (f : list (str * A)) k c x :
  In x (fkeys (fset f k c)) -> x = k \/ In x (fkeys f).
Proof.
  unfold fkeys. intros H. apply in_map_iff in H. destruct H as [[k' c'] [E Hin]].
  cbn [fst] in E. subst k'. apply fset_in in Hin. destruct Hin as [Hin|Hin].
  - left. now injection Hin.
  - right. apply in_map_iff. exists (x, c'). now split.
Qed.

Lemma fset_sorted {A} (f : list (str * A)) k c :
  sorted_keys (fkeys f) = true -> sorted_keys (fkeys (fset f k c)) = true.
Proof.
  induction f as [|[k0 c0] t IH]; intros H; cbn [fset]; [reflexivity|].
  destruct (str_compare k k0) eqn:C.
  - apply str_compare_eq in C. subst k0. exact H.
  - change (sorted_keys (k :: k0 :: fkeys t) = true). rewrite sk_cons2.
    change (sorted_keys (k0 :: fkeys t) = true) in H. rewrite H.
    unfold str_ltb. now rewrite C.
  - change (sorted_keys (k0 :: fkeys (fset t k c)) = true).
    change (sorted_keys (k0 :: fkeys t) = true) in H.
    apply sk_cons; [apply IH; now apply sk_tail in H|].
    intros x Hx. apply fset_key_in in Hx. destruct Hx as [->|Hx].
    + unfold str_ltb. rewrite (str_compare_antisym k k0), C. reflexivity.
    + now apply (sk_head_lt _ _ H).
Qed.

(* sorted unique keys, every column named by its key, common length n *)
Definition WF (f : frame) (n : nat) : Prop :=
  sorted_keys (fkeys f) = true /\
  forall k c, In (k, c) f -> cname c = k /\ List.length (cdata c) = n.

Lemma wf_of_WF f n : WF f n -> wf_frame f = true.
Proof.
  intros [Hs Hc]. unfold wf_frame. rewrite Hs, andb_true_r. apply andb_true_intro. split.
  - unfold rect. apply forallb_forall. intros [k c] Hin. cbn [snd]. apply Nat.eqb_eq.
    rewrite (proj2 (Hc k c Hin)). destruct f as [|[k0 c0] t]; [destruct Hin|].
    cbn [nrows]. symmetry. apply (Hc k0 c0). now left.
  - unfold names_ok. apply forallb_forall. intros [k c] Hin. cbn [fst snd].
    apply str_eqb_eq. symmetry. apply (Hc k c Hin).
Qed.

Lemma WF_nrows f n : WF f n -> nrows f = n \/ f = [].
Proof.
  intros [_ Hc]. destruct f as [|[k0 c0] t]; [now right|]. left. cbn [nrows]. apply (Hc k0 c0). now left.
Qed.

Lemma WF_fset f n k c : WF f n -> cname c = k -> List.length (cdata c) = n -> WF (fset f k c) n.
Proof.
  intros [Hs Hc] Hk Hl. split; [now apply fset_sorted|].
  intros k' c' Hin. apply fset_in in Hin. destruct Hin as [E|Hin]; [|now apply Hc].
  injection E as -> ->. now split.
Qed.

(* ------------------------------------------------------------------------- *)
(* 1, 2. the result of from_sql                                               *)
(* ------------------------------------------------------------------------- *)

Definition build (names : list str) (data : list (list cell)) : frame :=
  fold_left (fun acc ic => fset acc (snd ic) (snd ic, map (fun r => nth_cell r (fst ic)) data))
            (combine (seq 0 (List.length names)) names) [].

Lemma from_sql_unfold T h dates names tys rws has_err :
  from_sql T h dates names tys rws has_err =
  match read_rows T h dates (combine names (map scan_kind tys)) rws with
  | None => Err
  | Some data => if has_err then Err else if has_dup names then Err else Ok (build names data)
  end.
Proof. reflexivity. Qed.

Theorem from_sql_no_panic T h dates names tys rws has_err :
  from_sql T h dates names tys rws has_err <> Panic.
Proof.
  rewrite from_sql_unfold. destruct (read_rows _ _ _ _ _); [|discriminate].
  destruct has_err; [discriminate|]. destruct (has_dup names); discriminate.
Qed.

(* an iteration error never yields a partial frame *)
Theorem from_sql_iter_err T h dates names tys rws : from_sql T h dates names tys rws true = Err.
Proof. rewrite from_sql_unfold. now destruct (read_rows _ _ _ _ _). Qed.

Theorem from_sql_dup_names T h dates names tys rws has_err :
  has_dup names = true -> from_sql T h dates names tys rws has_err = Err.
Proof.
  intros H. rewrite from_sql_unfold, H. destruct (read_rows _ _ _ _ _); [|reflexivity]. now destruct has_err.
Qed.

Lemma from_sql_ok_inv T h dates names tys rws has_err fr :
  from_sql T h dates names tys rws has_err = Ok fr ->
  exists data, read_rows T h dates (combine names (map scan_kind tys)) rws = Some data
               /\ has_err = false /\ has_dup names = false /\ fr = build names data.
Proof.
  rewrite from_sql_unfold. destruct (read_rows _ _ _ _ _) as [data|]; [|discriminate].
  destruct has_err; [discriminate|]. destruct (has_dup names); [discriminate|].
  intros H. injection H as <-. exists data. auto.
Qed.

Lemma read_rows_length T h dates cols : forall rws data,
  read_rows T h dates cols rws = Some data -> (List.length data <= List.length rws)%nat.
Proof.
  induction rws as [|r rws IH]; intros data H; cbn [read_rows] in H.
  - injection H as <-. cbn. lia.
  - destruct (if scan_ok cols r then read_row T h dates cols r else None) as [keep|]; [|discriminate].
    destruct (read_rows T h dates cols rws) as [out|]; [|discriminate].
    specialize (IH out eq_refl). injection H as <-. destruct keep; cbn [List.length]; lia.
Qed.

Lemma build_fold_WF (data : list (list cell)) : forall (l : list (nat * str)) acc, WF acc (List.length data) ->
  WF (fold_left (fun acc ic => fset acc (snd ic) (snd ic, map (fun r => nth_cell r (fst ic)) data)) l acc)
     (List.length data).
Proof.
  induction l as [|[i k] l IH]; intros acc H; cbn [fold_left]; [exact H|].
  apply IH. apply WF_fset; [exact H | reflexivity | cbn [cdata snd]; apply map_length].
Qed.

Lemma build_WF names data : WF (build names data) (List.length data).
Proof. unfold build. apply build_fold_WF. split; [reflexivity|]. intros k c []. Qed.

Lemma build_fold_fhas (data : list (list cell)) k : forall (l : list (nat * str)) acc,
  fhas (fold_left (fun acc ic => fset acc (snd ic) (snd ic, map (fun r => nth_cell r (fst ic)) data)) l acc) k
  = existsb (str_eqb k) (map snd l) || fhas acc k.
Proof.
  induction l as [|[i k'] l IH]; intros acc; cbn [fold_left map existsb snd]; [reflexivity|].
  rewrite IH, fhas_fset. cbn [snd].
  destruct (str_eqb k k'); destruct (existsb (str_eqb k) (map snd l)); reflexivity.
Qed.

Lemma map_snd_combine_seq (names : list str) : forall s, map snd (combine (seq s (List.length names)) names) = names.
Proof. induction names as [|a names IH]; intros s; cbn [List.length seq combine map snd]; [reflexivity|]. now rewrite IH. Qed.

Lemma build_fhas names data k : fhas (build names data) k = existsb (str_eqb k) names.
Proof. unfold build. rewrite build_fold_fhas, map_snd_combine_seq. apply orb_false_r. Qed.

(* column i of the frame holds the i-th cell of every kept row *)
Lemma build_fold_other (data : list (list cell)) k : forall (l : list (nat * str)) acc,
  ~ In k (map snd l) ->
  fget (fold_left (fun acc ic => fset acc (snd ic) (snd ic, map (fun r => nth_cell r (fst ic)) data)) l acc) k
  = fget acc k.
Proof.
  induction l as [|[i k'] l IH]; intros acc H; cbn [fold_left]; [reflexivity|].
  cbn [map snd In] in H. rewrite IH by tauto. cbn [snd]. apply fget_fset_other. intros ->. tauto.
Qed.

Lemma build_fold_get (data : list (list cell)) i k : forall (l : list (nat * str)) acc,
  NoDup (map snd l) -> In (i, k) l ->
  fget (fold_left (fun acc ic => fset acc (snd ic) (snd ic, map (fun r => nth_cell r (fst ic)) data)) l acc) k
  = Some (k, map (fun r => nth_cell r i) data).
Proof.
  induction l as [|[i' k'] l IH]; intros acc Hnd Hin; [destruct Hin|].
  cbn [map snd] in Hnd. inversion Hnd as [|x xs Hx Hl]; subst. cbn [fold_left].
  destruct Hin as [E|Hin].
  - injection E as -> ->. rewrite build_fold_other by assumption. cbn [fst snd]. apply fget_fset_same.
  - now apply IH.
Qed.

Lemma in_combine_seq (names : list str) k : forall i s,
  nth_opt names i = Some k -> In ((s + i)%nat, k) (combine (seq s (List.length names)) names).
Proof.
  induction names as [|a names IH]; intros i s H; [destruct i; discriminate|].
  cbn [List.length seq combine]. destruct i as [|i]; cbn [nth_opt] in H.
  - injection H as ->. left. f_equal. lia.
  - right. replace (s + S i)%nat with (S s + i)%nat by lia. now apply IH.
Qed.

Lemma NoDup_of_has_dup l : has_dup l = false -> NoDup l.
Proof.
  induction l as [|x l IH]; intros H; constructor; cbn [has_dup] in H; apply orb_false_elim in H; destruct H as [H1 H2].
  - intros Hin. assert (X : existsb (str_eqb x) l = true).
    { apply existsb_exists. exists x. split; [assumption | apply str_eqb_refl]. }
    congruence.
  - now apply IH.
Qed.

Theorem build_column names data i k :
  has_dup names = false -> nth_opt names i = Some k ->
  fget (build names data) k = Some (k, map (fun r => nth_cell r i) data).
Proof.
  intros Hd Hi. unfold build. apply build_fold_get.
  - rewrite map_snd_combine_seq. now apply NoDup_of_has_dup.
  - exact (in_combine_seq names k i 0 Hi).
Qed.

Theorem from_sql_ok_wf T h dates names tys rws has_err fr :
  from_sql T h dates names tys rws has_err = Ok fr ->
  wf_frame fr = true
  /\ (forall k, fhas fr k = existsb (str_eqb k) names)
  /\ (nrows fr <= List.length rws)%nat
  /\ has_err = false /\ has_dup names = false.
Proof.
  intros H. apply from_sql_ok_inv in H. destruct H as (data & Hr & He & Hd & ->).
  pose proof (build_WF names data) as HW. split; [now apply wf_of_WF in HW|].
  split; [intros k; apply build_fhas|]. split; [|auto].
  apply read_rows_length in Hr. destruct (WF_nrows _ _ HW) as [-> | ->]; [assumption | cbn; lia].
Qed.

(* the evaluated shape specification c14_shape of SqlCorr.v needs exactly these facts; the
   number of columns is the number of result columns *)
Lemma fkeys_length_build_fold (data : list (list cell)) : forall (l : list (nat * str)) (acc : frame),
  NoDup (map snd l) -> (forall k, In k (map snd l) -> fhas acc k = false) ->
  List.length (fold_left (fun (acc : frame) (ic : nat * str) => fset acc (snd ic) (snd ic, map (fun r => nth_cell r (fst ic)) data)) l acc)
  = (List.length acc + List.length l)%nat.
Proof.
  assert (Hlen : forall (acc : frame) k c, fhas acc k = false -> List.length (fset acc k c) = S (List.length acc)).
  { induction acc as [|[k0 c0] acc IHa]; intros k c H; cbn [fset]; [reflexivity|].
    unfold fhas in H. cbn [fget] in H. destruct (str_compare k k0) eqn:C.
    - apply str_compare_eq in C. subst k0. rewrite str_eqb_refl in H. discriminate.
    - reflexivity.
    - cbn [List.length]. f_equal. apply IHa. unfold fhas. destruct (str_eqb k k0); [discriminate | exact H]. }
  induction l as [|[i k] l IH]; intros acc Hnd Hab; cbn [fold_left List.length]; [lia|].
  cbn [map snd] in Hnd. inversion Hnd as [|x xs Hx Hl]; subst.
  rewrite IH; [|assumption|].
  - cbn [snd]. rewrite Hlen by (apply Hab; now left). lia.
  - intros k' Hk'. rewrite fhas_fset. cbn [snd].
    assert (E : str_eqb k' k = false) by (apply str_eqb_neq; intros ->; contradiction).
    rewrite E. apply Hab. now right.
Qed.

Theorem from_sql_ok_ncols T h dates names tys rws has_err fr :
  from_sql T h dates names tys rws has_err = Ok fr -> ncols fr = List.length names.
Proof.
  intros H. apply from_sql_ok_inv in H. destruct H as (data & _ & _ & Hd & ->).
  unfold ncols, build. rewrite fkeys_length_build_fold.
  - rewrite combine_length, seq_length. cbn [List.length]. lia.
  - rewrite map_snd_combine_seq. now apply NoDup_of_has_dup.
  - reflexivity.
Qed.

(* the evaluated shape specification c14_shape of SqlCorr.v holds of the model's own output *)
Fixpoint kset (l : list str) (k : str) : list str :=
  match l with
  | [] => [k]
  | k' :: t => match str_compare k k' with Lt => k :: l | Eq => k :: t | Gt => k' :: kset t k end
  end.

Lemma fkeys_fset {A} (f : list (str * A)) k c : fkeys (fset f k c) = kset (fkeys f) k.
Proof.
  induction f as [|[k0 c0] t IH]; cbn [fset fkeys map fst kset]; [reflexivity|].
  destruct (str_compare k k0); cbn [map fst]; [reflexivity | reflexivity |]. f_equal. exact IH.
Qed.

Lemma build_fold_keys (data : list (list cell)) : forall (l : list (nat * str)) (acc : frame),
  fkeys (fold_left (fun (acc : frame) (ic : nat * str) =>
                      fset acc (snd ic) (snd ic, map (fun r => nth_cell r (fst ic)) data)) l acc)
  = fold_left kset (map snd l) (fkeys acc).
Proof.
  induction l as [|[i k] l IH]; intros acc; cbn [fold_left map snd]; [reflexivity|].
  now rewrite IH, fkeys_fset.
Qed.

Lemma unit_fold_keys : forall (names : list str) (acc : list (str * unit)),
  fkeys (fold_left (fun acc n => fset acc n tt) names acc) = fold_left kset names (fkeys acc).
Proof.
  induction names as [|k names IH]; intros acc; cbn [fold_left]; [reflexivity|].
  now rewrite IH, fkeys_fset.
Qed.

Lemma build_keys names data :
  fkeys (build names data) = fkeys (fold_left (fun acc n => fset acc n tt) names ([] : list (str * unit))).
Proof. unfold build. now rewrite build_fold_keys, unit_fold_keys, map_snd_combine_seq. Qed.

Lemma str_list_eqb_refl (l : list str) : list_eqb str_eqb l l = true.
Proof. induction l as [|x l IH]; [reflexivity|]. cbn [list_eqb]. now rewrite str_eqb_refl, IH. Qed.

Theorem c14_shape_model T h dates names tys rws has_err :
  c14_shape {| rc_T := T; rc_handler := h; rc_dates := dates; rc_names := names; rc_types := tys;
               rc_rows := rws; rc_iter_err := has_err; rc_invalid := false;
               rc_out := from_sql T h dates names tys rws has_err |} = true.
Proof.
  unfold c14_shape. cbn [rc_out rc_iter_err rc_invalid rc_names rc_rows].
  destruct (from_sql T h dates names tys rws has_err) as [fr| |] eqn:E.
  - pose proof (from_sql_ok_wf _ _ _ _ _ _ _ _ E) as (Hwf & _ & Hn & -> & _).
    apply from_sql_ok_inv in E. destruct E as (data & _ & _ & _ & ->).
    rewrite Hwf, build_keys, str_list_eqb_refl. cbn [negb andb]. now apply Nat.leb_le.
  - reflexivity.
  - exfalso. now apply (from_sql_no_panic _ _ _ _ _ _ _ E).
Qed.

(* ------------------------------------------------------------------------- *)
(* 3. the NULL handlers                                                       *)
(* ------------------------------------------------------------------------- *)

Definition zero_of (k : dkind) : cell :=
  match k with
  | DStr => CS [] | DInt => CI KInt64 0 | DFloat => CF KF64 (FFin 0) | DBool => CB false | DTime => CT zero_time
  end.

Theorem handle_null_default cn k : handle_null NHDefault cn k = NRVal CNil.
Proof. reflexivity. Qed.
Theorem handle_null_nil cn k : handle_null (NHString (lit "nil")) cn k = NRVal CNil.
Proof. reflexivity. Qed.
Theorem handle_null_zero cn k : handle_null (NHString (lit "zero")) cn k = NRVal (zero_of k).
Proof. destruct k; reflexivity. Qed.
Theorem handle_null_skip cn k : handle_null (NHString (lit "skip_row")) cn k = NRSkip.
Proof. reflexivity. Qed.
Theorem handle_null_map m cn k :
  handle_null (NHMap m) cn k = NRVal (match fget m cn with Some v => v | None => CNil end).
Proof. unfold handle_null. now destruct (fget m cn). Qed.
Theorem handle_null_other_string s cn k :
  s <> lit "nil" -> s <> lit "zero" -> s <> lit "skip_row" -> handle_null (NHString s) cn k = NRErr.
Proof.
  intros H1 H2 H3. apply str_eqb_neq in H1. apply str_eqb_neq in H2. apply str_eqb_neq in H3.
  unfold handle_null. now rewrite H1, H2, H3.
Qed.
Theorem handle_null_other_type cn k : handle_null NHOther cn k = NRErr.
Proof. reflexivity. Qed.
(* the policy strings are case-sensitive and the empty string is not the default *)
Example handle_null_strings :
  handle_null (NHString (lit "Zero")) [] DInt = NRErr /\ handle_null (NHString []) [] DInt = NRErr
  /\ handle_null (NHString (lit "skip")) [] DInt = NRErr.
Proof. repeat split. Qed.

Lemma scan_null_iff k v : scan k v = SNull <-> v = CNil.
Proof. destruct v; destruct k; cbn; split; intro H; try discriminate; auto. Qed.

Lemma scan_sval_bound k v c : scan k v = SVal c -> c = bound_value v.
Proof. destruct v; destruct k; cbn; intro H; try discriminate; now injection H as <-. Qed.

Definition no_nil (r : list cell) : bool := forallb (fun c => negb (is_nil c)) r.

Lemma read_row_no_null T h h' dates : forall cols vals, no_nil vals = true ->
  read_row T h dates cols vals = read_row T h' dates cols vals.
Proof.
  induction cols as [|[cn k] cols IH]; intros vals H; [reflexivity|].
  destruct vals as [|v vals]; [reflexivity|].
  unfold no_nil in H. cbn [forallb] in H. apply andb_prop in H. destruct H as [Hv Hvals].
  cbn [read_row]. rewrite (IH vals Hvals).
  destruct (scan k v) eqn:Es; try reflexivity.
  apply scan_null_iff in Es. subst v. discriminate.
Qed.

Lemma read_rows_no_null T h h' dates cols : forall rws, forallb no_nil rws = true ->
  read_rows T h dates cols rws = read_rows T h' dates cols rws.
Proof.
  induction rws as [|r rws IH]; intros H; [reflexivity|].
  cbn [forallb] in H. apply andb_prop in H. destruct H as [Hr Hrws].
  cbn [read_rows]. now rewrite (read_row_no_null T h h' dates cols r Hr), (IH Hrws).
Qed.

(* without a NULL in the result set the handler is never consulted, not even to be validated *)
Theorem unknown_handler_only_on_null T h h' dates names tys rws has_err :
  forallb no_nil rws = true ->
  from_sql T h dates names tys rws has_err = from_sql T h' dates names tys rws has_err.
Proof. intros H. rewrite !from_sql_unfold. now rewrite (read_rows_no_null T h h' dates _ rws H). Qed.

(* and it is consulted (and rejected) as soon as one NULL is scanned *)
Example unknown_handler_on_null :
  let T := {| t_parse := []; t_unix := []; t_unixmilli := [] |} in
  from_sql T NHOther [] [lit "a"] [lit "TEXT"] [[CS (lit "x")]] false
    = Ok [(lit "a", (lit "a", [CS (lit "x")]))]
  /\ from_sql T NHOther [] [lit "a"] [lit "TEXT"] [[CS (lit "x")]; [CNil]] false = Err.
Proof. vm_compute. split; reflexivity. Qed.

(* ------------------------------------------------------------------------- *)
(* 4. skip_row                                                                *)
(* ------------------------------------------------------------------------- *)

Definition scan_vals (cols : list (str * dkind)) (vals : list cell) : list cell :=
  map (fun cv => match scan (snd (fst cv)) (snd cv) with SVal c => c | _ => CNil end) (combine cols vals).

Lemma read_row_skip T : forall cols vals,
  List.length vals = List.length cols -> scan_ok cols vals = true ->
  read_row T (NHString (lit "skip_row")) [] cols vals
  = Some (if no_nil vals then Some (scan_vals cols vals) else None).
Proof.
  induction cols as [|[cn k] cols IH]; intros vals Hl Hs.
  - destruct vals; [reflexivity | discriminate].
  - destruct vals as [|v vals]; [discriminate|].
    cbn [List.length] in Hl. unfold scan_ok in Hs. cbn [combine forallb fst snd] in Hs.
    apply andb_prop in Hs. destruct Hs as [Hv Hs].
    cbn [read_row existsb]. rewrite (IH vals) by (auto; lia).
    rewrite handle_null_skip.
    unfold no_nil, scan_vals. cbn [forallb combine map fst snd].
    destruct (scan k v) eqn:Es.
    + apply scan_null_iff in Es. subst v. reflexivity.
    + assert (Hn : is_nil v = false).
      { destruct v; try reflexivity. cbn in Es. discriminate. }
      rewrite Hn. cbn [negb andb]. fold (no_nil vals). destruct (no_nil vals); reflexivity.
    + discriminate.
Qed.

Definition row_ok (cols : list (str * dkind)) (r : list cell) : bool :=
  Nat.eqb (List.length r) (List.length cols) && scan_ok cols r.

Lemma read_rows_skip T cols : forall rws, forallb (row_ok cols) rws = true ->
  read_rows T (NHString (lit "skip_row")) [] cols rws = Some (map (scan_vals cols) (filter no_nil rws)).
Proof.
  induction rws as [|r rws IH]; intros H; [reflexivity|].
  cbn [forallb] in H. apply andb_prop in H. destruct H as [Hr Hrws].
  unfold row_ok in Hr. apply andb_prop in Hr. destruct Hr as [Hl Hs]. apply Nat.eqb_eq in Hl.
  cbn [read_rows filter]. rewrite Hs, (read_row_skip T cols r Hl Hs), (IH Hrws).
  destruct (no_nil r); reflexivity.
Qed.

(* the kept rows are exactly the rows without NULL, in order *)
Theorem skip_row_spec T names tys rws :
  let cols := combine names (map scan_kind tys) in
  forallb (row_ok cols) rws = true -> has_dup names = false ->
  from_sql T (NHString (lit "skip_row")) [] names tys rws false
  = Ok (build names (map (scan_vals cols) (filter no_nil rws))).
Proof.
  intros cols Hok Hd. rewrite from_sql_unfold. fold cols. now rewrite (read_rows_skip T cols rws Hok), Hd.
Qed.

(* the values of a kept row are the served values, as database/sql converts them *)
Lemma scan_vals_bound : forall cols vals, List.length vals = List.length cols -> scan_ok cols vals = true ->
  no_nil vals = true -> scan_vals cols vals = map bound_value vals.
Proof.
  induction cols as [|[cn k] cols IH]; intros vals Hl Hs Hn.
  - destruct vals; [reflexivity | discriminate].
  - destruct vals as [|v vals]; [discriminate|]. cbn [List.length] in Hl.
    unfold scan_ok in Hs. cbn [combine forallb fst snd] in Hs. apply andb_prop in Hs. destruct Hs as [Hv Hs].
    unfold no_nil in Hn. cbn [forallb] in Hn. apply andb_prop in Hn. destruct Hn as [Hnv Hn].
    unfold scan_vals. cbn [combine map fst snd]. fold (scan_vals cols vals).
    rewrite IH by (auto; lia). f_equal.
    destruct (scan k v) eqn:Es.
    + apply scan_null_iff in Es. subst v. discriminate.
    + now apply scan_sval_bound in Es.
    + discriminate.
Qed.

Example skip_row_ex :
  let T := {| t_parse := []; t_unix := []; t_unixmilli := [] |} in
  let names := [lit "id"; lit "name"] in let tys := [lit "integer"; lit "varchar(10)"] in
  let rws := [[CI KInt64 1; CS (lit "a")]; [CNil; CS (lit "b")]; [CI KInt64 3; CNil]; [CI KInt64 4; CS (lit "d")]] in
  forallb (row_ok (combine names (map scan_kind tys))) rws = true /\ has_dup names = false
  /\ from_sql T (NHString (lit "skip_row")) [] names tys rws false
     = Ok [(lit "id", (lit "id", [CI KInt64 1; CI KInt64 4])); (lit "name", (lit "name", [CS (lit "a"); CS (lit "d")]))].
Proof. vm_compute. repeat split. Qed.

(* ------------------------------------------------------------------------- *)
(* 5. declared type names                                                     *)
(* ------------------------------------------------------------------------- *)

Theorem scan_kind_table :
  map scan_kind [lit "INTEGER"; lit "INT"; lit "BIGINT"; lit "SMALLINT"] = [DInt; DInt; DInt; DInt]
  /\ map scan_kind [lit "REAL"; lit "FLOAT"; lit "DOUBLE"; lit "DOUBLE PRECISION"; lit "NUMERIC"; lit "NUMERIC(10,2)"]
     = [DFloat; DFloat; DFloat; DFloat; DFloat; DFloat]
  /\ map scan_kind [lit "BOOL"; lit "BOOLEAN"] = [DBool; DBool]
  /\ map scan_kind [lit "DATE"; lit "DATETIME"; lit "TIMESTAMP"; lit "TIME"] = [DTime; DTime; DTime; DTime]
  /\ map scan_kind [lit "TEXT"; lit "CHAR"; lit "VARCHAR"; lit "VARCHAR(255)"; lit "BLOB"; lit "JSON"; lit ""]
     = [DStr; DStr; DStr; DStr; DStr; DStr; DStr]
  /\ map scan_kind [lit "integer"; lit "Real"; lit "boolean"; lit "timestamp with time zone"; lit "text"]
     = [DInt; DFloat; DBool; DTime; DStr].
Proof. vm_compute. repeat split. Qed.

(* the tests are substring tests in a fixed order: the first match wins *)
Example scan_kind_order :
  map scan_kind [lit "POINT"; lit "INTERVAL"; lit "TINYINT(1)"; lit "DATEINT"; lit "UNREAL"]
  = [DInt; DInt; DInt; DInt; DFloat].
Proof. vm_compute. reflexivity. Qed.

Lemma upper_byte_idem c : upper_byte (upper_byte c) = upper_byte c.
Proof.
  unfold upper_byte. destruct (N.leb 97 c && N.leb c 122) eqn:E; [|now rewrite E].
  apply andb_prop in E. destruct E as [E1 E2]. apply N.leb_le in E1. apply N.leb_le in E2.
  replace (N.leb 97 (c - 32)) with false by (symmetry; apply N.leb_gt; lia). reflexivity.
Qed.

Lemma upper_lower_byte c : upper_byte (lower_byte c) = upper_byte c.
Proof.
  unfold upper_byte, lower_byte. destruct (N.leb 65 c && N.leb c 90) eqn:E.
  - apply andb_prop in E. destruct E as [E1 E2]. apply N.leb_le in E1. apply N.leb_le in E2.
    replace (N.leb 97 (c + 32)) with true by (symmetry; apply N.leb_le; lia).
    replace (N.leb (c + 32) 122) with true by (symmetry; apply N.leb_le; lia).
    replace (N.leb 97 c) with false by (symmetry; apply N.leb_gt; lia).
    cbn [andb]. lia.
  - reflexivity.
Qed.

(* case-insensitive: only the upper-cased name matters *)
Theorem scan_kind_upper ty : scan_kind (to_upper ty) = scan_kind ty.
Proof.
  unfold scan_kind. cbv zeta.
  replace (to_upper (to_upper ty)) with (to_upper ty); [reflexivity|].
  unfold to_upper. rewrite map_map. apply map_ext. intros c. now rewrite upper_byte_idem.
Qed.
Theorem scan_kind_lower ty : scan_kind (to_lower ty) = scan_kind ty.
Proof.
  unfold scan_kind. cbv zeta.
  replace (to_upper (to_lower ty)) with (to_upper ty); [reflexivity|].
  unfold to_upper, to_lower. rewrite map_map. apply map_ext. intros c. now rewrite upper_lower_byte.
Qed.
Theorem scan_kind_case_insensitive a b : to_upper a = to_upper b -> scan_kind a = scan_kind b.
Proof. intros H. unfold scan_kind. cbv zeta. now rewrite H. Qed.

(* ------------------------------------------------------------------------- *)
(* 6. ParseDates                                                              *)
(* ------------------------------------------------------------------------- *)

Theorem parse_date_time T t : parse_date T (CT t) = Some (CT t).
Proof. reflexivity. Qed.
Theorem parse_date_null T : parse_date T CNil = Some (CT zero_time).
Proof. reflexivity. Qed.
Theorem parse_date_text T s : parse_date T (CS s) = option_map CT (first_parse T date_layouts s).
Proof. reflexivity. Qed.
Theorem parse_date_text_fails T s : parse_date T (CS s) = None <-> first_parse T date_layouts s = None.
Proof. rewrite parse_date_text. destruct (first_parse T date_layouts s); cbn; split; intro H; congruence. Qed.
Theorem parse_date_bool T b : parse_date T (CB b) = None.
Proof. reflexivity. Qed.

(* the first layout, in the order of date_layouts, that time.Parse accepts *)
Theorem first_parse_some T s t : forall ls,
  first_parse T ls s = Some t <->
  exists pre l post, ls = pre ++ l :: post /\ Forall (fun l' => tp_lookup T l' s = None) pre
                     /\ tp_lookup T l s = Some t.
Proof.
  induction ls as [|l0 ls IH]; cbn [first_parse].
  - split; [discriminate|]. intros (pre & l & post & E & _). destruct pre; discriminate.
  - destruct (tp_lookup T l0 s) as [t0|] eqn:E0.
    + split.
      * intros H. injection H as ->. exists [], l0, ls. repeat split; auto.
      * intros (pre & l & post & E & Hpre & Hl). destruct pre as [|p pre]; cbn [app] in E; injection E as -> ->.
        -- congruence.
        -- inversion Hpre; subst. congruence.
    + rewrite IH. split.
      * intros (pre & l & post & -> & Hpre & Hl). exists (l0 :: pre), l, post. repeat split; auto.
      * intros (pre & l & post & E & Hpre & Hl). destruct pre as [|p pre]; cbn [app] in E; injection E as -> ->.
        -- congruence.
        -- inversion Hpre; subst. exists pre, l, post. auto.
Qed.

Theorem first_parse_none T s : forall ls,
  first_parse T ls s = None <-> Forall (fun l => tp_lookup T l s = None) ls.
Proof.
  induction ls as [|l0 ls IH]; cbn [first_parse]; [split; auto|].
  destruct (tp_lookup T l0 s) as [t0|] eqn:E0.
  - split; [discriminate|]. intros H. inversion H; subst. congruence.
  - rewrite IH. split; [intros H; now constructor | intros H; now inversion H].
Qed.

(* a value that cannot be parsed fails the row ... *)
Lemma read_row_date_err T h dates cn k v c post vpost :
  existsb (str_eqb cn) dates = true -> scan k v = SVal c -> parse_date T c = None ->
  forall pre vpre, List.length vpre = List.length pre -> no_nil vpre = true ->
  read_row T h dates (pre ++ (cn, k) :: post) (vpre ++ v :: vpost) = None.
Proof.
  intros Hd Es Hp. induction pre as [|[cn0 k0] pre IH]; intros vpre Hl Hn.
  - destruct vpre; [|discriminate]. cbn [app read_row]. now rewrite Es, Hd, Hp.
  - destruct vpre as [|v0 vpre]; [discriminate|]. cbn [List.length] in Hl.
    unfold no_nil in Hn. cbn [forallb] in Hn. apply andb_prop in Hn. destruct Hn as [Hv0 Hn].
    cbn [app read_row]. rewrite IH by (auto; lia).
    destruct (scan k0 v0) eqn:E0.
    + apply scan_null_iff in E0. subst v0. discriminate.
    + destruct (if existsb (str_eqb cn0) dates then parse_date T c0 else Some c0); reflexivity.
    + reflexivity.
Qed.

(* ... and a failed row fails the whole import, wherever it is *)
Lemma read_rows_fail T h dates cols r : forall rws, In r rws ->
  (if scan_ok cols r then read_row T h dates cols r else None) = None ->
  read_rows T h dates cols rws = None.
Proof.
  induction rws as [|r0 rws IH]; intros Hin Hf; [destruct Hin|]. cbn [read_rows].
  destruct Hin as [->|Hin]; [now rewrite Hf|].
  rewrite (IH Hin Hf). now destruct (if scan_ok cols r0 then read_row T h dates cols r0 else None).
Qed.

Theorem from_sql_row_fail T h dates names tys rws has_err r :
  In r rws ->
  read_row T h dates (combine names (map scan_kind tys)) r = None ->
  from_sql T h dates names tys rws has_err = Err.
Proof.
  intros Hin Hf. rewrite from_sql_unfold. rewrite (read_rows_fail T h dates _ r rws Hin); [reflexivity|].
  rewrite Hf. now destruct (scan_ok _ r).
Qed.

Theorem from_sql_bad_date T h dates names tys rws has_err cn k v c pre post vpre vpost :
  combine names (map scan_kind tys) = pre ++ (cn, k) :: post ->
  In (vpre ++ v :: vpost) rws -> List.length vpre = List.length pre -> no_nil vpre = true ->
  existsb (str_eqb cn) dates = true -> scan k v = SVal c -> parse_date T c = None ->
  from_sql T h dates names tys rws has_err = Err.
Proof.
  intros Hc Hin Hl Hn Hd Es Hp. apply (from_sql_row_fail T h dates names tys rws has_err _ Hin).
  rewrite Hc. now apply (read_row_date_err T h dates cn k v c post vpost Hd Es Hp).
Qed.

Example parse_dates_ex :
  let T := {| t_parse := [((lit "2006-01-02", lit "2024-03-05"), Some [2024; 3; 5; 0; 0; 0; 0; 0]);
                          ((lit "2006-01-02 15:04:05", lit "2024-03-05"), None)];
              t_unix := []; t_unixmilli := [] |} in
  from_sql T NHDefault [lit "d"] [lit "d"] [lit "TEXT"] [[CS (lit "2024-03-05")]; [CNil]] false
    = Ok [(lit "d", (lit "d", [CT [2024; 3; 5; 0; 0; 0; 0; 0]; CT zero_time]))]
  /\ from_sql T NHDefault [lit "d"] [lit "d"] [lit "TEXT"] [[CS (lit "2024-03-05")]; [CS (lit "soon")]] false = Err.
Proof. vm_compute. split; reflexivity. Qed.

Print Assumptions from_sql_no_panic.
Print Assumptions from_sql_iter_err.
Print Assumptions from_sql_dup_names.
Print Assumptions from_sql_ok_wf.
Print Assumptions from_sql_ok_ncols.
Print Assumptions build_column.
Print Assumptions c14_shape_model.
Print Assumptions unknown_handler_only_on_null.
Print Assumptions skip_row_spec.
Print Assumptions scan_vals_bound.
Print Assumptions scan_kind_table.
Print Assumptions scan_kind_case_insensitive.
Print Assumptions first_parse_some.
Print Assumptions first_parse_none.
Print Assumptions from_sql_bad_date.
