(* Ops.v - L1 model of goframe's DataFrame operations (dataframe/*.go), one Gallina
   function per public operation, with Ok / Err / Panic outcomes.  Definitions only.
   The model follows the code as it is in /repo (including the fix: commits); what is
   assumed about Go itself is in Base.v/Frame.v (map iteration = sorted order, oracles). *)
From GF Require Export Frame.

Definition is_some {A} (o : option A) : bool := match o with Some _ => true | None => false end.
Definition null {A} (l : list A) : bool := match l with [] => true | _ => false end.

(* ---------- selection ---------- *)
Definition rekey_cols (g : list cell -> list cell) (f : frame) : frame :=
  map (fun kc => (fst kc, (fst kc, g (cdata (snd kc))))) f.

Definition clamp_count (f : frame) (n : Z) : nat :=
  if n <? 0 then O else if Z.of_nat (nrows f) <? n then nrows f else Z.to_nat n.

Definition op_head (f : frame) (n : Z) : out frame :=
  let k := clamp_count f n in
  if forallb (fun kc => Nat.leb k (length (cdata (snd kc)))) f
  then Ok (rekey_cols (firstn k) f) else Panic.

Definition op_tail (f : frame) (n : Z) : out frame :=
  let k := clamp_count f n in
  let s := (nrows f - k)%nat in
  if forallb (fun kc => Nat.leb s (length (cdata (snd kc)))) f
  then Ok (rekey_cols (skipn s) f) else Panic.

Definition valid_rows (f : frame) (idxs : list nat) : list nat :=
  filter (fun i => is_some (frow f i)) idxs.
Definition sel_rows (f : frame) (idxs : list nat) : frame :=
  rekey_cols (fun d => pick d (valid_rows f idxs)) f.

Definition op_rowslice (f : frame) (a b : Z) : frame :=
  let a' := Z.max a 0 in
  let b' := Z.min b (Z.of_nat (nrows f)) in
  if b' <=? a' then rekey_cols (fun _ => []) f
  else sel_rows f (seq (Z.to_nat a') (Z.to_nat (b' - a'))).

(* Filter: the predicate is given by the answers to its successive calls *)
Definition filter_calls (f : frame) : list nat := valid_rows f (seq 0 (nrows f)).
Definition filter_idx (f : frame) (keep : list bool) : list nat :=
  map fst (filter snd (combine (filter_calls f) keep)).
Definition op_filter (f : frame) (keep : list bool) : frame * list rowmap :=
  (rekey_cols (fun d => pick d (filter_idx f keep)) f,
   flat_map (fun i => match frow f i with Some r => [r] | None => [] end) (filter_calls f)).

Definition index_name : str := [105; 110; 100; 101; 120]%N.   (* "index" *)
Definition row_or_empty (f : frame) (i : nat) : rowmap :=
  match frow f i with Some r => r | None => [] end.
Definition count_eq (labels : list cell) (v : cell) : nat :=
  length (filter (fun l => cell_eqb v l) labels).

Definition op_loc (f : frame) (labels : list cell) (cols : list str) : out frame :=
  if negb (forallb (fhas f) cols) then Err else
  match fget f index_name with
  | None => Err
  | Some ic =>
    if negb (null labels) && negb (Nat.leb (nrows f) (length (cdata ic))) then Panic else
    let idxs := flat_map (fun i => match nth_opt (cdata ic) i with
                                   | Some v => repeat i (count_eq labels v)
                                   | None => [] end) (seq 0 (nrows f)) in
    Ok (frame_of_rows cols (map (row_or_empty f) idxs))
  end.

Definition op_iloc (f : frame) (rws : list Z) (cls : list Z) : out frame :=
  let names := fkeys f in
  match all_some (map (zidx names) cls) with
  | None => Err
  | Some cols =>
    if forallb (fun r => (0 <=? r) && (r <? Z.of_nat (nrows f))) rws
    then Ok (frame_of_rows cols (map (fun r => row_or_empty f (Z.to_nat r)) rws))
    else Err
  end.

Definition op_multiselect (f : frame) (names : list str) : out frame :=
  if null names then Err else
  match all_some (map (fget f) names) with
  | None => Err
  | Some cs => Ok (fold_left (fun acc c => if fhas acc (cname c) then acc else fset acc (cname c) c) cs [])
  end.

Definition op_row (f : frame) (i : Z) : out rowmap :=
  if (i <? 0) || (Z.of_nat (nrows f) <=? i) then Err else
  match frow f (Z.to_nat i) with Some r => Ok r | None => Err end.

(* ---------- Shift ---------- *)
Definition shift_cell (d : list cell) (p : Z) (i : nat) : cell :=
  let j := wrap64 (Z.of_nat i - p) in
  if (0 <=? j) && (j <? Z.of_nat (length d))
  then match nth_opt d (Z.to_nat j) with Some c => c | None => CNil end
  else CNil.
Definition shift_col (p : Z) (d : list cell) : list cell :=
  map (shift_cell d p) (seq 0 (length d)).
Definition op_shift (f : frame) (p : Z) : frame := rekey_cols (shift_col p) f.

(* ---------- SortValues ---------- *)
Definition cell_at (f : frame) (k : str) (i : nat) : cell :=
  match fget f k with
  | Some c => match nth_opt (cdata c) i with Some v => v | None => CNil end
  | None => CNil
  end.
(* DataFrameSorter.Less *)
Fixpoint less (O : oracles) (f : frame) (by_ : list str) (asc : bool) (i j : nat) : bool :=
  match by_ with
  | [] => false
  | k :: rest =>
    let a := cell_at f k i in
    let b := cell_at f k j in
    match a, b with
    | CNil, CNil => less O f rest asc i j
    | CNil, _ => false
    | _, CNil => true
    | _, _ =>
      match to_float O a, to_float O b with
      | Some x, Some y =>
        if fl_eq x y then less O f rest asc i j
        else if asc then fl_lt x y else fl_lt y x
      | _, _ =>
        let s1 := render O a in
        let s2 := render O b in
        if str_eqb s1 s2 then less O f rest asc i j
        else if asc then str_ltb s1 s2 else str_ltb s2 s1
      end
    end
  end.
(* sort.Sort is modelled by an insertion sort of the row positions (ties come out in reverse
   input order; tie order is never compared with the implementation) *)
Fixpoint insert_by (lt : nat -> nat -> bool) (x : nat) (l : list nat) : list nat :=
  match l with
  | [] => [x]
  | y :: t => if lt x y then x :: l else y :: insert_by lt x t
  end.
Definition isort (lt : nat -> nat -> bool) (l : list nat) : list nat :=
  fold_right (insert_by lt) [] l.
Definition op_sort (O : oracles) (f : frame) (by_ : list str) (asc : bool) : out frame :=
  if negb (forallb (fhas f) by_) then Err else
  let perm := isort (less O f by_ asc) (seq 0 (nrows f)) in
  Ok (map_cols (fun d => pick d perm) f).

(* ---------- DropDuplicates ---------- *)
Definition keys_eqb (a b : list cell) : bool := list_eqb cell_eqb a b.
Definition row_key (f : frame) (names : list str) (i : nat) : option (list cell) :=
  all_some (map (fun n => match fget f n with
                          | Some c => nth_opt (cdata c) i
                          | None => None end) names).
Fixpoint first_idx (ks : list (list cell)) (i : nat) (seen : list (list cell)) : list nat :=
  match ks with
  | [] => []
  | k :: t => if existsb (keys_eqb k) seen then first_idx t (S i) seen
              else i :: first_idx t (S i) (k :: seen)
  end.
Definition last_idx (ks : list (list cell)) : list nat :=
  rev (map (fun j => (length ks - 1 - j)%nat) (first_idx (rev ks) 0 [])).
Definition none_idx (ks : list (list cell)) : list nat :=
  map fst (filter (fun ik => Nat.eqb (length (filter (keys_eqb (snd ik)) ks)) 1)
                  (combine (seq 0 (length ks)) ks)).
Definition s_first : str := [102; 105; 114; 115; 116]%N.
Definition s_last : str := [108; 97; 115; 116]%N.
Definition s_none : str := [110; 111; 110; 101]%N.
(* the positions DropDuplicates keeps; has_opt = an option struct was passed *)
Definition dedup_idx (f : frame) (has_opt : bool) (subset : list str) (keep : str) : out (list nat) :=
  let keep' := if has_opt && negb (null keep) then keep else s_first in
  let names := if has_opt && negb (null subset) then subset else fkeys f in
  if negb (str_eqb keep' s_first || str_eqb keep' s_last || str_eqb keep' s_none) then Err else
  match all_some (map (row_key f names) (seq 0 (nrows f))) with
  | None => Err
  | Some ks =>
    Ok (if str_eqb keep' s_first then first_idx ks 0 []
        else if str_eqb keep' s_last then last_idx ks
        else none_idx ks)
  end.
Definition op_dedup (f : frame) (has_opt : bool) (subset : list str) (keep : str) : out frame :=
  do idxs <- dedup_idx f has_opt subset keep;
  Ok (rekey_cols (fun d => pick d idxs) f).
Definition op_dedup_inplace (f : frame) (subset : list str) (keep : str) : out frame :=
  do idxs <- dedup_idx f true subset keep;
  Ok (map_cols (fun d => pick d idxs) f).

(* ---------- joins ---------- *)
Inductive jkind := JInner | JLeft | JRight | JOuter.
Definition merge_rows (a b : rowmap) : rowmap :=
  fold_left (fun m kv => if fhas m (fst kv) then m else fset m (fst kv) (snd kv)) b a.
Definition key_eq (key : str) (a b : rowmap) : bool := cell_eqb (rget a key) (rget b key).
Definition matches_l (key : str) (a : rowmap) (R : list rowmap) : list rowmap :=
  flat_map (fun b => if key_eq key a b then [merge_rows a b] else []) R.
Definition matches_r (key : str) (b : rowmap) (L : list rowmap) : list rowmap :=
  flat_map (fun a => if key_eq key b a then [merge_rows a b] else []) L.
Definition join_rows (k : jkind) (key : str) (L R : list rowmap) : list rowmap :=
  match k with
  | JInner => flat_map (fun a => matches_l key a R) L
  | JLeft => flat_map (fun a => let m := matches_l key a R in if null m then [a] else m) L
  | JRight => flat_map (fun b => let m := matches_r key b L in if null m then [b] else m) R
  | JOuter =>
    flat_map (fun a => let m := matches_l key a R in if null m then [a] else m) L
    ++ filter (fun b => negb (existsb (fun a => key_eq key a b) L)) R
  end.
Definition op_join (k : jkind) (f g : frame) (key : str) : out frame :=
  if negb (fhas f key) || negb (fhas g key) then Err
  else Ok (frame_of_rows (fkeys f ++ fkeys g) (join_rows k key (rows f) (rows g))).

(* ---------- Add ---------- *)
Definition same_type (a b : cell) : bool :=
  match a, b with
  | CNil, CNil => true
  | CI k _, CI k' _ => ikind_eqb k k'
  | CF k _, CF k' _ => fkind_eqb k k'
  | CS _, CS _ | CB _, CB _ | CT _, CT _ => true
  | _, _ => false
  end.
Definition add_cell (O : oracles) (a b : cell) : out cell :=
  match to_float O a, to_float O b with
  | Some x, Some y => Ok (CF KF64 (fl_add x y))
  | _, _ => if same_type a b then match a with CS _ => Ok CNil | _ => Err end else Ok CNil
  end.
Fixpoint add_cols (O : oracles) (fill : cell) (a b : list cell) : out (list cell) :=
  match a, b with
  | [], [] => Ok []
  | [], _ :: _ => Ok (repeat fill (length b))
  | _ :: _, [] => Ok (repeat fill (length a))
  | x :: a', y :: b' =>
    do c <- add_cell O x y;
    do r <- add_cols O fill a' b';
    Ok (c :: r)
  end.
Fixpoint out_all {A} (l : list (out A)) : out (list A) :=
  match l with
  | [] => Ok []
  | o :: t => do x <- o; do r <- out_all t; Ok (x :: r)
  end.
Definition op_add (O : oracles) (f g : frame) (fill : option cell) : out frame :=
  if negb (Nat.eqb (ncols f) (ncols g)) then Err else
  if negb (forallb (fhas g) (fkeys f)) then Err else
  let fv := match fill with Some v => v | None => CNil end in
  do cols <- out_all (map (fun kc =>
       match fget g (fst kc) with
       | Some c2 => do d <- add_cols O fv (cdata (snd kc)) (cdata c2); Ok (fst kc, (fst kc, d))
       | None => Err end) f);
  Ok cols.

(* ---------- Apply (functions from a fixed menu shared with the harness) ---------- *)
Inductive aresult :=
| RAny (l : list cell) | RStrs (l : list str) | RInts (l : list Z) | RBools (l : list bool)
| RSingle (c : cell) | RNilRes.
Definition s_k : str := [107]%N.
Definition apply_fn (id : nat) (x : list cell) : aresult :=
  match id with
  | 0%nat => RAny x
  | 1%nat => RAny (rev x)
  | 2%nat => RSingle (CS s_k)
  | 3%nat => RSingle (CI KInt (Z.of_nat (length (filter (fun c => negb (is_nil c)) x))))
  | 4%nat => RInts (map Z.of_nat (seq 0 (length x)))
  | 5%nat => RStrs (map (fun c => if is_nil c then [] else s_k) x)
  | 6%nat => RBools (map is_nil x)
  | 7%nat => RNilRes
  | 9%nat => RAny x          (* hands back its own argument slice (only used where that is allowed) *)
  | 10%nat => RAny (firstn (Nat.div2 (length x)) x)   (* a shorter slice *)
  | 11%nat => RAny (x ++ [CS s_k])                    (* a longer slice *)
  | 12%nat => RInts (map Z.of_nat (seq 0 (Nat.div2 (length x))))     (* a shorter []int *)
  | 13%nat => RStrs (map (fun _ => s_k) x ++ [s_k])                  (* a longer []string *)
  | 14%nat => match x with CNil :: _ => RSingle (CS s_k) | _ => RAny (rev x) end  (* a single value for some rows, a slice for the others *)
  | 15%nat => RAny x          (* appends to its argument (into spare capacity only) and returns the original cells *)
  | _ => RAny (map (fun c => match c with CS _ => CNil | _ => c end) x)
  end.
(* the functions of the menu that return as many cells as they receive (all but 10-13) *)
Definition fn_keeps_length (id : nat) : bool :=
  negb (Nat.eqb id 10 || Nat.eqb id 11 || Nat.eqb id 12 || Nat.eqb id 13).
Definition apply_col (id : nat) (d : list cell) : out (list cell) :=
  match apply_fn id d with
  | RAny l => Ok l
  | RStrs l => Ok (map CS l)
  | RInts l => Ok (map (CI KInt) l)
  | RBools l => Ok (map CB l)
  | RSingle c => Ok (repeat c (length d))
  | RNilRes => Err
  end.
Definition op_apply_col (id : nat) (f : frame) : out frame :=
  if null f then Err else
  do cols <- out_all (map (fun kc => do d <- apply_col id (cdata (snd kc)); Ok (fst kc, (fst kc, d))) f);
  Ok cols.
(* one row's result as the cells written at that row, one per column *)
Definition apply_row_cells (id : nat) (nc : nat) (x : list cell) : out (list cell) :=
  match apply_fn id x with
  | RAny l => if Nat.leb nc (length l) then Ok (firstn nc l) else Err
  | RSingle c => Ok (repeat c nc)
  | RNilRes => Ok (repeat CNil nc)
  | _ => Ok (repeat CNil nc)   (* typed slices are not in the row-wise menu *)
  end.
Fixpoint transpose (nc : nat) (rws : list (list cell)) : list (list cell) :=
  match nc with
  | O => []
  | S k => map (fun r => match r with c :: _ => c | [] => CNil end) rws
           :: transpose k (map (@tl cell) rws)
  end.
Definition op_apply_row (id : nat) (f : frame) : out frame :=
  let n := nrows f in
  match all_some (map (frow f) (seq 0 n)) with
  | None => Err
  | Some rs =>
    do res <- out_all (map (fun r => apply_row_cells id (ncols f) (map snd r)) rs);
    if null f then Err else
    Ok (map (fun kd => (fst kd, (fst kd, snd kd))) (combine (fkeys f) (transpose (ncols f) res)))
  end.
Definition op_apply (id : nat) (f : frame) (axis : option (list Z)) : out frame :=
  match axis with
  | None | Some [] => op_apply_col id f
  | Some (a :: _) => if a =? 0 then op_apply_col id f else op_apply_row id f
  end.

(* ---------- aggregation ---------- *)
Definition fl_sum (l : list fl) : fl := fold_left fl_add l (FFin 0).
Definition fl_min (l : list fl) : fl :=
  match l with
  | [] => FNaN
  | x :: t => fold_left (fun m v => if fl_lt v m || fl_is_nan m then v else m) t x
  end.
Definition fl_max (l : list fl) : fl :=
  match l with
  | [] => FNaN
  | x :: t => fold_left (fun m v => if fl_lt m v || fl_is_nan m then v else m) t x
  end.
Definition fl_mean (l : list fl) : fl := fl_div_count (fl_sum l) (Z.of_nat (length l)).

(* Series.AsFloat64 *)
Definition as_float64 (O : oracles) (d : list cell) : option (list fl) :=
  all_some (map (fun c => match c with
                          | CF _ x => Some x
                          | CI KInt z | CI KInt64 z => Some (fl_of_Z z)
                          | CS s => pf O s
                          | _ => None end) d).
Inductive aggk := ASum | AMean | AMin | AMax.
Definition series_agg (O : oracles) (k : aggk) (d : list cell) : out fl :=
  match as_float64 O d with
  | None => Err
  | Some l =>
    match k with
    | ASum => Ok (fl_sum l)
    | AMean => if null l then Err else Ok (fl_mean l)
    | AMin => if null l then Err else Ok (fl_min l)
    | AMax => if null l then Err else Ok (fl_max l)
    end
  end.
Definition op_agg (O : oracles) (k : aggk) (f : frame) : out (list (str * fl)) :=
  out_all (map (fun kc => do x <- series_agg O k (cdata (snd kc)); Ok (fst kc, x)) f).

Definition s_stat : str := [115; 116; 97; 116]%N.
Definition s_count : str := [99; 111; 117; 110; 116]%N.
Definition s_mean : str := [109; 101; 97; 110]%N.
Definition s_min : str := [109; 105; 110]%N.
Definition s_max : str := [109; 97; 120]%N.
Definition describe_nums (O : oracles) (d : list cell) : list fl :=
  flat_map (fun c => match to_float O c with Some x => [x] | None => [] end) d.
Definition describe_col (nums : list fl) : list cell :=
  [CF KF64 (fl_of_Z (Z.of_nat (length nums))); CF KF64 (fl_mean nums);
   CF KF64 (fl_min nums); CF KF64 (fl_max nums)].
Definition op_describe (O : oracles) (f : frame) : frame :=
  fold_left (fun acc kc =>
    let nums := describe_nums O (cdata (snd kc)) in
    if null nums || fhas acc (fst kc) then acc
    else fset acc (fst kc) (fst kc, describe_col nums))
    f [(s_stat, (s_stat, [CS s_count; CS s_mean; CS s_min; CS s_max]))].

(* ---------- Groupby ---------- *)
Inductive gkey := GOne (k : str) | GList (ks : list str).
Definition s_bar : str := [124]%N.
Fixpoint join_bar (l : list str) : str :=
  match l with
  | [] => []
  | [s] => s
  | s :: t => s ++ s_bar ++ join_bar t
  end.
Definition groups := list (cell * list rowmap).
Fixpoint group_add (g : groups) (k : cell) (r : rowmap) : groups :=
  match g with
  | [] => [(k, [r])]
  | (k', rs) :: t => if cell_eqb k k' then (k', rs ++ [r]) :: t else (k', rs) :: group_add t k r
  end.
Definition group_key (O : oracles) (gk : gkey) (r : rowmap) : cell :=
  match gk with
  | GOne k => rget r k
  | GList ks => CS (join_bar (map (fun k => render O (rget r k)) ks))
  end.
Definition gkey_cols (gk : gkey) : list str := match gk with GOne k => [k] | GList ks => ks end.
Definition gkey_name (gk : gkey) : str := match gk with GOne k => k | GList _ => [] end.
(* groups in first-appearance order (= KeyOrder) *)
Definition op_groupby (O : oracles) (f : frame) (gk : gkey) : out groups :=
  if negb (forallb (fhas f) (gkey_cols gk)) then Err else
  match all_some (map (frow f) (seq 0 (nrows f))) with
  | None => Err
  | Some rs => Ok (fold_left (fun g r => group_add g (group_key O gk r) r) rs [])
  end.

Inductive gagg := GSum | GMean | GCount.
Definition gnum (c : cell) : option fl :=
  match c with
  | CI _ z => Some (fl_of_Z z)
  | CF _ x => Some x
  | _ => None
  end.
Definition group_nums (rs : list rowmap) (cn : str) : list fl :=
  flat_map (fun r => match fget r cn with
                     | Some c => match gnum c with Some x => [x] | None => [] end
                     | None => [] end) rs.
Definition group_value (a : gagg) (rs : list rowmap) (cn : str) : cell :=
  match a with
  | GSum => CF KF64 (fl_sum (group_nums rs cn))
  | GMean => let l := group_nums rs cn in
             CF KF64 (if null l then FFin 0 else fl_mean l)
  | GCount => CI KInt (Z.of_nat (length rs))
  end.
Definition s_groupkey : str := [71; 114; 111; 117; 112; 75; 101; 121]%N.
Fixpoint nodup_str (l : list str) : list str :=
  match l with
  | [] => []
  | x :: t => if existsb (str_eqb x) t then nodup_str t else x :: nodup_str t
  end.
Definition all_group_cols (g : groups) (keyname : str) : list str :=
  nodup_str (filter (fun k => negb (str_eqb k keyname))
                    (flat_map (fun kr => flat_map (@fkeys cell) (snd kr)) g)).
Definition op_group_agg (O : oracles) (f : frame) (gk : gkey) (a : gagg) (cols : list str) : out frame :=
  do g <- op_groupby O f gk;
  let cols' := match a with
               | GCount => cols
               | _ => if null cols then all_group_cols g (gkey_name gk) else cols
               end in
  if negb (Nat.eqb (length (nodup_str cols')) (length cols')) || existsb (str_eqb s_groupkey) cols' then Err else
  Ok (fold_left (fun acc cn => fset acc cn (cn, map (fun kr => group_value a (snd kr) cn) g))
                cols' [(s_groupkey, (s_groupkey, map fst g))]).

(* ---------- Resample ---------- *)
Definition trunc_time (t : list Z) (freq : N) : list Z :=
  match t with
  | [y; mo; d; h; mi; s; ns; off] =>
    match freq with
    | 89%N => [y; 1; 1; 0; 0; 0; 0; off]        (* Y *)
    | 77%N => [y; mo; 1; 0; 0; 0; 0; off]       (* M *)
    | 68%N => [y; mo; d; 0; 0; 0; 0; off]       (* D *)
    | 72%N => [y; mo; d; h; 0; 0; 0; off]       (* H *)
    | 84%N => [y; mo; d; h; mi; 0; 0; off]      (* T *)
    | _ => [y; mo; d; h; mi; s; 0; off]         (* S *)
    end
  | _ => t
  end.
Definition freq_ok (s : str) : option N :=
  match s with
  | [c] => if N.eqb c 89 || N.eqb c 77 || N.eqb c 68 || N.eqb c 72 || N.eqb c 84 || N.eqb c 83
           then Some c else None
  | _ => None
  end.
Fixpoint zlist_ltb (a b : list Z) : bool :=
  match a, b with
  | x :: a', y :: b' => if x <? y then true else if y <? x then false else zlist_ltb a' b'
  | _, _ => false
  end.
Fixpoint insert_time (b : list Z) (l : list (list Z)) : list (list Z) :=
  match l with
  | [] => [b]
  | x :: t => if zlist_eqb b x then l else if zlist_ltb b x then b :: l else x :: insert_time b t
  end.
(* %v of the cells of a bucket, for the identity aggregation (ints, text, booleans and nil only: the menu's
   identity function is used on such columns) *)
Definition render_plain (c : cell) : str :=
  match c with
  | CNil => s_nil
  | CI _ z => dec_Z z
  | CS s => s
  | CB true => s_true
  | CB false => s_false
  | _ => qmarks
  end.
Fixpoint join_sp (l : list str) : str :=
  match l with
  | [] => []
  | [s] => s
  | s :: t => s ++ [32%N] ++ join_sp t
  end.
Definition show_cells (x : list cell) : str := [91%N] ++ join_sp (map render_plain x) ++ [93%N].
Definition resample_fn (id : nat) (x : list cell) : cell :=
  match id with
  | 0%nat => CI KInt (Z.of_nat (length x))
  | 1%nat => match x with c :: _ => c | [] => CNil end
  | 2%nat => last x CNil
  | 3%nat => CI KInt (fold_left (fun s c => match c with CI _ z => s + z | _ => s end) x 0)
  | 5%nat => last x CNil        (* reverses its argument in place and returns the new first cell: the argument is the
                                   function's own, whatever it does to it must not show anywhere else *)
  | _ => CS (show_cells x)     (* identity: the harness prints the returned slice with %v *)
  end.
Definition time_of (c : cell) : option (list Z) := match c with CT t => Some t | _ => None end.
Definition op_resample (f : frame) (tcol : str) (freq : str) (agg : nat) : out frame :=
  match fget f tcol with
  | None => Err
  | Some tc =>
    match freq_ok freq with
    | None => Err
    | Some fq =>
      match all_some (map (frow f) (seq 0 (nrows f))) with
      | None => Err
      | Some rs =>
        match all_some (map (fun r => time_of (rget r tcol)) rs) with
        | None => Err
        | Some ts =>
          let bs := map (fun t => trunc_time t fq) ts in
          let buckets := fold_left (fun acc b => insert_time b acc) bs [] in
          let others := filter (fun k => negb (str_eqb k tcol)) (fkeys f) in
          Ok (fold_left (fun acc k =>
                fset acc k (k, map (fun b =>
                  resample_fn agg (flat_map (fun rb => if zlist_eqb (snd rb) b then [rget (fst rb) k] else [])
                                            (combine rs bs))) buckets))
              others
              [(tcol, (tcol, map CT buckets))])
        end
      end
    end
  end.

(* ---------- cleaning and conversion ---------- *)
Definition op_fillna (f : frame) (v : cell) : frame :=
  map_cols (map (fun c => if is_nil c then v else c)) f.
Definition op_dropna (f : frame) : out frame :=
  match all_some (map (frow f) (seq 0 (nrows f))) with
  | None => Err
  | Some rs =>
    let keepi := map fst (filter (fun ir => negb (existsb (fun kv => is_nil (snd kv)) (snd ir)))
                                 (combine (seq 0 (nrows f)) rs)) in
    Ok (map_cols (fun d => pick d keepi) f)
  end.
Definition s_int : str := [105; 110; 116]%N.
Definition s_float64 : str := [102; 108; 111; 97; 116; 54; 52]%N.
Definition s_string : str := [115; 116; 114; 105; 110; 103]%N.
Definition astype_cell (O : oracles) (ty : str) (c : cell) : out cell :=
  if str_eqb ty s_int then
    match c with
    | CF KF64 x => match fl_trunc x with Some z => Ok (CI KInt z) | None => Ok (CI KInt (- two63)) end
    | _ => Err
    end
  else if str_eqb ty s_float64 then
    match c with CI KInt z => Ok (CF KF64 (fl_of_Z z)) | _ => Err end
  else if str_eqb ty s_string then Ok (CS (render O c))
  else Err.
Definition op_astype (O : oracles) (f : frame) (cn ty : str) : out frame :=
  match fget f cn with
  | None => Err
  | Some c =>
    do d <- out_all (map (astype_cell O ty) (cdata c));
    Ok (fset f cn (cname c, d))
  end.
Definition op_datetime (O : oracles) (f : frame) (cn layout : str) : out frame :=
  match fget f cn with
  | None => Err
  | Some c =>
    do d <- out_all (map (fun v => match v with
                                   | CS s => match tparse O layout s with Some t => Ok (CT t) | None => Err end
                                   | _ => Err end) (cdata c));
    Ok (fset f cn (cname c, d))
  end.

(* ---------- row and column edits ---------- *)
Definition op_append_row (f : frame) (r : rowmap) : frame :=
  let n := nrows f in
  let f1 := fold_left (fun acc kv => if fhas acc (fst kv) then acc
                                     else fset acc (fst kv) (fst kv, repeat CNil n)) r f in
  map (fun kc => (fst kc, (cname (snd kc), cdata (snd kc) ++ [rget r (fst kc)]))) f1.
Definition op_droprow (f : frame) (i : Z) : out frame :=
  if (i <? 0) || (Z.of_nat (nrows f) <=? i) then Err
  else if forallb (fun kc => Nat.ltb (Z.to_nat i) (length (cdata (snd kc)))) f
       then Ok (map_cols (fun d => remove_nth d (Z.to_nat i)) f) else Panic.
Definition op_rename (f : frame) (a b : str) : out frame :=
  match fget f a with
  | None => Err
  | Some c => if fhas f b then Err else Ok (fset (fdel f a) b (b, cdata c))
  end.
Definition op_addcolumn (f : frame) (n : str) (d : list cell) : out frame :=
  if fhas f n then Err else Ok (fset f n (n, d)).
Definition op_dropcolumn (f : frame) (n : str) : out frame :=
  if fhas f n then Ok (fdel f n) else Err.
Definition op_setcell (f : frame) (cn : str) (i : Z) (v : cell) : out frame :=
  match fget f cn with
  | None => Err
  | Some c => if (0 <=? i) && (i <? Z.of_nat (length (cdata c)))
              then Ok (fset f cn (cname c, set_nth (cdata c) (Z.to_nat i) v)) else Err
  end.
