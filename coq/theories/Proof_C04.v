(* Proof_C04.v - Groupby (C04) and the group aggregations (C05).
   C04: the groups partition the rows by Go's == on the key cell: distinct keys, complete
   groups in original order, every row in exactly one group, keys in first-appearance
   order.  The key-LIST form goes through the "|"-joined %v texts, which is not injective:
   proved only under an explicit injectivity premise, and refuted without it.
   C05: Count/Sum/Mean of a group, which cells count as numeric, conservation of the
   exact sum over the partition, shape of the aggregated frame. *)
From GF Require Import Ops Lemmas.
From Coq Require Import Lia Permutation.

Arguments N.eqb : simpl never.

(* ================================================================== *)
(* A. Go's interface == on cells                                       *)
(* ================================================================== *)

Lemma ikind_eqb_eq a b : ikind_eqb a b = true <-> a = b.
Proof. destruct a, b; cbn; split; intro H; try discriminate; reflexivity. Qed.
Lemma fkind_eqb_eq a b : fkind_eqb a b = true <-> a = b.
Proof. destruct a, b; cbn; split; intro H; try discriminate; reflexivity. Qed.
Lemma zlist_eqb_eq a : forall b, zlist_eqb a b = true <-> a = b.
Proof.
  induction a as [|x a IH]; intros [|y b]; cbn [zlist_eqb]; split; intro H; try discriminate; auto.
  - apply andb_prop in H. destruct H as [H1 H2]. apply Z.eqb_eq in H1. apply IH in H2. now subst.
  - inversion H; subst. rewrite Z.eqb_refl. now apply IH.
Qed.
Lemma fl_is_zero_fin x : fl_is_zero (FFin x) = true <-> x = 0.
Proof. destruct x; cbn; split; intro H; try discriminate; auto. Qed.

Lemma ikind_eqb_sym a b : ikind_eqb a b = ikind_eqb b a.
Proof. destruct a, b; reflexivity. Qed.
Lemma fkind_eqb_sym a b : fkind_eqb a b = fkind_eqb b a.
Proof. destruct a, b; reflexivity. Qed.
Lemma fl_eq_sym a b : fl_eq a b = fl_eq b a.
Proof.
  destruct a as [| | | |x], b as [| | | |y]; try reflexivity.
  cbn [fl_eq]. apply Z.eqb_sym.
Qed.
Lemma bool_eqb_sym a b : Bool.eqb a b = Bool.eqb b a.
Proof. destruct a, b; reflexivity. Qed.
Lemma zlist_eqb_sym a : forall b, zlist_eqb a b = zlist_eqb b a.
Proof.
  induction a as [|x a IH]; intros [|y b]; cbn [zlist_eqb]; try reflexivity.
  now rewrite Z.eqb_sym, IH.
Qed.

(* 1a. == is symmetric (all cells, NaN included) *)
Theorem cell_eqb_sym a b : cell_eqb a b = cell_eqb b a.
Proof.
  destruct a as [|k x|k x|s|u|t], b as [|k' y|k' y|s'|u'|t']; cbn [cell_eqb]; try reflexivity.
  - now rewrite ikind_eqb_sym, Z.eqb_sym.
  - now rewrite fkind_eqb_sym, fl_eq_sym.
  - apply str_eqb_sym.
  - apply bool_eqb_sym.
  - apply zlist_eqb_sym.
Qed.

(* IEEE == is transitive: +0 == -0 both ways, and NaN is equal to nothing, so it never
   appears in a hypothesis *)
Lemma fl_eq_trans a b c : fl_eq a b = true -> fl_eq b c = true -> fl_eq a c = true.
Proof.
  destruct a as [| | | |x], b as [| | | |y], c as [| | | |z]; cbn [fl_eq]; intros H1 H2;
    try discriminate; try reflexivity;
    rewrite ?fl_is_zero_fin, ?Z.eqb_eq in *; subst; try reflexivity; try discriminate.
Qed.

(* 1b. == is transitive.  Plain transitivity holds for ALL cells: the float cases 0/-0
   are equal in both directions, and a NaN makes a hypothesis false.  (What NaN breaks is
   reflexivity, hence the notion of a proper key below.) *)
Theorem cell_eqb_trans a b c : cell_eqb a b = true -> cell_eqb b c = true -> cell_eqb a c = true.
Proof.
  destruct a as [|k x|k x|s|u|t], b as [|k' y|k' y|s'|u'|t'], c as [|k'' z|k'' z|s''|u''|t''];
    cbn [cell_eqb]; intros H1 H2; try discriminate; try reflexivity.
  - apply andb_prop in H1. destruct H1 as [A1 B1]. apply andb_prop in H2. destruct H2 as [A2 B2].
    apply ikind_eqb_eq in A1. apply ikind_eqb_eq in A2. apply Z.eqb_eq in B1. apply Z.eqb_eq in B2. subst.
    apply andb_true_intro. split; [now apply ikind_eqb_eq | apply Z.eqb_refl].
  - apply andb_prop in H1. destruct H1 as [A1 B1]. apply andb_prop in H2. destruct H2 as [A2 B2].
    apply fkind_eqb_eq in A1. apply fkind_eqb_eq in A2. subst.
    apply andb_true_intro. split; [now apply fkind_eqb_eq | eapply fl_eq_trans; eauto].
  - apply str_eqb_eq in H1. apply str_eqb_eq in H2. subst. apply str_eqb_refl.
  - apply Bool.eqb_prop in H1. apply Bool.eqb_prop in H2. subst. apply Bool.eqb_reflx.
  - apply zlist_eqb_eq in H1. apply zlist_eqb_eq in H2. subst. now apply zlist_eqb_eq.
Qed.

(* a key cell is proper when it is equal to itself: everything but a float NaN *)
Definition proper (c : cell) : Prop := cell_eqb c c = true.
Definition properb (c : cell) : bool := cell_eqb c c.

Lemma proper_not_nan c : proper c <-> (forall k, c <> CF k FNaN).
Proof.
  unfold proper. split.
  - intros H k E. subst. cbn in H. now rewrite andb_false_r in H.
  - intros H. destruct c as [|k x|k x|s|u|t]; cbn [cell_eqb].
    + reflexivity.
    + apply andb_true_intro. split; [now apply ikind_eqb_eq | apply Z.eqb_refl].
    + apply andb_true_intro. split; [now apply fkind_eqb_eq|].
      destruct x as [| | | |m]; cbn; try reflexivity; [now destruct (H k) | apply Z.eqb_refl].
    + apply str_eqb_refl.
    + apply Bool.eqb_reflx.
    + now apply zlist_eqb_eq.
Qed.

Lemma cell_eqb_proper_l a b : cell_eqb a b = true -> proper a.
Proof. intros H. unfold proper. eapply cell_eqb_trans; [exact H|]. now rewrite cell_eqb_sym. Qed.
Lemma cell_eqb_proper_r a b : cell_eqb a b = true -> proper b.
Proof. intros H. rewrite cell_eqb_sym in H. eapply cell_eqb_proper_l; eauto. Qed.

(* equal cells are interchangeable on either side of == *)
Lemma cell_eqb_congr_l a b c : cell_eqb a b = true -> cell_eqb a c = cell_eqb b c.
Proof.
  intros H. destruct (cell_eqb b c) eqn:E.
  - eapply cell_eqb_trans; eauto.
  - destruct (cell_eqb a c) eqn:E'; [|reflexivity].
    rewrite cell_eqb_sym in H. rewrite <- E. symmetry. eapply cell_eqb_trans; eauto.
Qed.
Lemma cell_eqb_congr_r a b c : cell_eqb a b = true -> cell_eqb c a = cell_eqb c b.
Proof. intros H. rewrite (cell_eqb_sym c a), (cell_eqb_sym c b). now apply cell_eqb_congr_l. Qed.

(* == is structural identity except for the two float zeros *)
Lemma cell_same_eq a b : cell_same a b = true <-> a = b.
Proof.
  split.
  - destruct a as [|k x|k x|s|u|t], b as [|k' y|k' y|s'|u'|t']; cbn [cell_same]; intros H;
      try discriminate; try reflexivity.
    + apply andb_prop in H. destruct H as [A B]. apply ikind_eqb_eq in A. apply Z.eqb_eq in B. now subst.
    + apply andb_prop in H. destruct H as [A B]. apply fkind_eqb_eq in A. subst. f_equal.
      destruct x as [| | | |m], y as [| | | |n]; cbn in B; try discriminate; try reflexivity.
      apply Z.eqb_eq in B. now subst.
    + apply str_eqb_eq in H. now subst.
    + apply Bool.eqb_prop in H. now subst.
    + apply zlist_eqb_eq in H. now subst.
  - intros E. subst b. destruct a as [|k x|k x|s|u|t]; cbn [cell_same].
    + reflexivity.
    + apply andb_true_intro. split; [now apply ikind_eqb_eq | apply Z.eqb_refl].
    + apply andb_true_intro. split; [now apply fkind_eqb_eq|].
      destruct x as [| | | |m]; cbn; try reflexivity. apply Z.eqb_refl.
    + apply str_eqb_refl.
    + apply Bool.eqb_reflx.
    + now apply zlist_eqb_eq.
Qed.

Definition is_negzero (c : cell) : bool := match c with CF _ FNegZero => true | _ => false end.

Lemma cell_eqb_cases a b : cell_eqb a b = true -> a = b \/ is_negzero a = true \/ is_negzero b = true.
Proof.
  destruct a as [|k x|k x|s|u|t], b as [|k' y|k' y|s'|u'|t']; cbn [cell_eqb]; intros H;
    try discriminate; try (now left).
  - apply andb_prop in H. destruct H as [A B]. apply ikind_eqb_eq in A. apply Z.eqb_eq in B. left. now subst.
  - apply andb_prop in H. destruct H as [A B]. apply fkind_eqb_eq in A. subst.
    destruct x as [| | | |m], y as [| | | |n]; cbn in B; try discriminate;
      try (now left); try (right; left; reflexivity); try (right; right; reflexivity).
    apply Z.eqb_eq in B. left. now subst.
  - apply str_eqb_eq in H. left. now subst.
  - apply Bool.eqb_prop in H. left. now subst.
  - apply zlist_eqb_eq in H. left. now subst.
Qed.

Example cell_eqb_zero_signs :
  cell_eqb (CF KF64 FNegZero) (CF KF64 (FFin 0)) = true /\
  cell_eqb (CF KF64 (FFin 0)) (CF KF64 FNegZero) = true /\
  cell_eqb (CF KF64 FNaN) (CF KF64 FNaN) = false /\
  cell_eqb (CI KInt 1) (CI KInt64 1) = false /\
  cell_eqb (CI KInt 1) (CS [49%N]) = false.
Proof. vm_compute. repeat split. Qed.

(* ================================================================== *)
(* B. first occurrences, lists without ==-duplicates                   *)
(* ================================================================== *)

Lemma existsb_false_forall {A} (p : A -> bool) l :
  existsb p l = false -> forall x, In x l -> p x = false.
Proof.
  intros H x Hx. destruct (p x) eqn:E; [|reflexivity].
  assert (T : existsb p l = true) by (apply existsb_exists; eauto). congruence.
Qed.
Lemma filter_nil {A} (p : A -> bool) l : (forall x, In x l -> p x = false) -> filter p l = [].
Proof.
  induction l as [|a l IH]; intros H; [reflexivity|]. cbn [filter].
  rewrite (H a) by now left. apply IH. intros x Hx. apply H. now right.
Qed.

(* x is kept iff no EARLIER element y of the list satisfies x == y; [seen] are the
   elements already passed *)
Fixpoint first_occ_from (seen l : list cell) : list cell :=
  match l with
  | [] => []
  | x :: t => if existsb (cell_eqb x) seen then first_occ_from (seen ++ [x]) t
              else x :: first_occ_from (seen ++ [x]) t
  end.
Definition first_occ (l : list cell) : list cell := first_occ_from [] l.

Lemma first_occ_from_snoc l : forall seen x,
  first_occ_from seen (l ++ [x]) =
  first_occ_from seen l ++ (if existsb (cell_eqb x) (seen ++ l) then [] else [x]).
Proof.
  induction l as [|a l IH]; intros seen x; cbn [app first_occ_from].
  - rewrite app_nil_r. destruct (existsb (cell_eqb x) seen); reflexivity.
  - rewrite IH. rewrite <- app_assoc. cbn [app].
    destruct (existsb (cell_eqb a) seen); reflexivity.
Qed.
(* the defining equation, read from the end of the list *)
Lemma first_occ_snoc l x :
  first_occ (l ++ [x]) = first_occ l ++ (if existsb (cell_eqb x) l then [] else [x]).
Proof. unfold first_occ. now rewrite first_occ_from_snoc. Qed.
Lemma first_occ_nil : first_occ [] = [].
Proof. reflexivity. Qed.

Lemma first_occ_incl l k : In k (first_occ l) -> In k l.
Proof.
  induction l as [|x l IH] using rev_ind; [now cbn|].
  rewrite first_occ_snoc. intros H. apply in_app_or in H. apply in_or_app.
  destruct H as [H|H]; [left; now apply IH|].
  destruct (existsb (cell_eqb x) l); [destruct H | now right].
Qed.

Lemma existsb_eqb_trans k x l :
  cell_eqb k x = true -> existsb (cell_eqb x) l = true -> existsb (cell_eqb k) l = true.
Proof.
  intros H E. apply existsb_exists in E. destruct E as [y [Hy E]].
  apply existsb_exists. exists y. split; [assumption|]. eapply cell_eqb_trans; eauto.
Qed.

(* a cell is == to some first occurrence iff it is == to some element *)
Lemma existsb_first_occ k l : existsb (cell_eqb k) (first_occ l) = existsb (cell_eqb k) l.
Proof.
  induction l as [|x l IH] using rev_ind; [reflexivity|].
  rewrite first_occ_snoc, !existsb_app, IH. cbn [existsb]. rewrite orb_false_r.
  destruct (existsb (cell_eqb x) l) eqn:E; cbn [existsb]; [|now rewrite orb_false_r].
  rewrite orb_false_r. destruct (cell_eqb k x) eqn:K; [|now rewrite orb_false_r].
  rewrite (existsb_eqb_trans _ _ _ K E). reflexivity.
Qed.

(* no two elements are ==  ("NoDup up to cell_eqb") *)
Fixpoint nodup_eqb (l : list cell) : bool :=
  match l with
  | [] => true
  | x :: t => negb (existsb (cell_eqb x) t) && nodup_eqb t
  end.

Lemma nodup_eqb_snoc l x : nodup_eqb (l ++ [x]) = nodup_eqb l && negb (existsb (cell_eqb x) l).
Proof.
  induction l as [|a l IH]; cbn [app nodup_eqb existsb]; [reflexivity|].
  rewrite IH, existsb_app. cbn [existsb]. rewrite orb_false_r, (cell_eqb_sym x a).
  destruct (existsb (cell_eqb a) l), (cell_eqb a x), (nodup_eqb l), (existsb (cell_eqb x) l); reflexivity.
Qed.

Lemma first_occ_nodup l : nodup_eqb (first_occ l) = true.
Proof.
  induction l as [|x l IH] using rev_ind; [reflexivity|].
  rewrite first_occ_snoc. destruct (existsb (cell_eqb x) l) eqn:E.
  - now rewrite app_nil_r.
  - now rewrite nodup_eqb_snoc, IH, existsb_first_occ, E.
Qed.

(* what nodup_eqb means: two positions holding == cells are the same position *)
Lemma nodup_eqb_spec l : nodup_eqb l = true ->
  forall i j a b, nth_error l i = Some a -> nth_error l j = Some b -> cell_eqb a b = true -> i = j.
Proof.
  induction l as [|x l IH]; intros H i j a b Hi Hj E.
  - destruct i; discriminate.
  - cbn [nodup_eqb] in H. apply andb_prop in H. destruct H as [H1 H2].
    apply negb_true_iff in H1.
    destruct i as [|i], j as [|j]; cbn [nth_error] in Hi, Hj.
    + reflexivity.
    + inversion Hi; subst x. apply nth_error_In in Hj.
      rewrite (existsb_false_forall _ _ H1 _ Hj) in E. discriminate.
    + inversion Hj; subst x. apply nth_error_In in Hi. rewrite cell_eqb_sym in E.
      rewrite (existsb_false_forall _ _ H1 _ Hi) in E. discriminate.
    + f_equal. eapply IH; eauto.
Qed.
Lemma nodup_eqb_In_eq l a b : nodup_eqb l = true -> In a l -> In b l -> cell_eqb a b = true -> a = b.
Proof.
  intros H Ha Hb E. apply In_nth_error in Ha. apply In_nth_error in Hb.
  destruct Ha as [i Hi]. destruct Hb as [j Hj].
  assert (i = j) by (eapply nodup_eqb_spec; eauto). subst j. congruence.
Qed.
(* on proper cells it implies the ordinary NoDup *)
Lemma nodup_eqb_NoDup l : Forall proper l -> nodup_eqb l = true -> NoDup l.
Proof.
  induction l as [|x l IH]; intros Hp H; constructor.
  - cbn [nodup_eqb] in H. apply andb_prop in H. destruct H as [H1 _]. apply negb_true_iff in H1.
    intros Hin. pose proof (existsb_false_forall _ _ H1 _ Hin) as E.
    inversion Hp; subst. unfold proper in *. congruence.
  - cbn [nodup_eqb] in H. apply andb_prop in H. destruct H as [_ H2].
    inversion Hp; subst. now apply IH.
Qed.

Example first_occ_ex :
  first_occ [CI KInt 1; CS [49%N]; CI KInt 1; CNil; CI KInt64 1; CS [49%N]; CNil; CB true]
  = [CI KInt 1; CS [49%N]; CNil; CI KInt64 1; CB true].
Proof. vm_compute. reflexivity. Qed.

(* ================================================================== *)
(* C. C04, generic: grouping a list of rows by a key function          *)
(* ================================================================== *)

(* the fold of op_groupby *)
Definition grp_of (kf : rowmap -> cell) (rs : list rowmap) : groups :=
  fold_left (fun g r => group_add g (kf r) r) rs [].
(* the rows whose key is == k, all their cells, in original order *)
Definition rows_of_key (kf : rowmap -> cell) (rs : list rowmap) (k : cell) : list rowmap :=
  filter (fun r => cell_eqb (kf r) k) rs.

Lemma grp_of_snoc kf rs r : grp_of kf (rs ++ [r]) = group_add (grp_of kf rs) (kf r) r.
Proof. unfold grp_of. now rewrite fold_left_app. Qed.

(* group_add: a new key goes to the end, a known key changes no key *)
Lemma group_add_keys g k r :
  map fst (group_add g k r) = map fst g ++ (if existsb (cell_eqb k) (map fst g) then [] else [k]).
Proof.
  induction g as [|[k' rs'] t IH]; cbn [group_add map fst existsb app]; [reflexivity|].
  destruct (cell_eqb k k'); cbn [map fst orb app].
  - now rewrite app_nil_r.
  - now rewrite IH.
Qed.

(* group_add only inserts the new row *)
Lemma group_add_perm g k r :
  Permutation (concat (map snd (group_add g k r))) (r :: concat (map snd g)).
Proof.
  induction g as [|[k' rs'] t IH]; cbn [group_add map snd concat app].
  - apply Permutation_refl.
  - destruct (cell_eqb k k'); cbn [map snd concat].
    + rewrite <- app_assoc. cbn [app]. symmetry. apply Permutation_middle.
    + eapply Permutation_trans; [apply Permutation_app_head; exact IH|].
      symmetry. apply Permutation_middle.
Qed.

(* group_add on a table given in closed form, keys without ==-duplicates *)
Lemma group_add_closed (h : cell -> list rowmap) x r : forall L, nodup_eqb L = true ->
  group_add (map (fun k => (k, h k)) L) x r =
  map (fun k => (k, h k ++ (if cell_eqb x k then [r] else []))) L
  ++ (if existsb (cell_eqb x) L then [] else [(x, [r])]).
Proof.
  induction L as [|k L IH]; intros H; cbn [map group_add existsb app]; [reflexivity|].
  cbn [nodup_eqb] in H. apply andb_prop in H. destruct H as [H1 H2]. apply negb_true_iff in H1.
  destruct (cell_eqb x k) eqn:E; cbn [orb].
  - rewrite app_nil_r. f_equal. apply map_ext_in. intros k' Hk'.
    assert (F : cell_eqb x k' = false).
    { rewrite (cell_eqb_congr_l _ _ k' E). eapply existsb_false_forall; eauto. }
    now rewrite F, app_nil_r.
  - rewrite app_nil_r. cbn [app]. f_equal. now apply IH.
Qed.

Section Generic.
Variable kf : rowmap -> cell.

(* 5. the keys of the groups are the keys of the rows in order of first appearance
   (holds for every key function, NaN keys included: each NaN opens a group of its own) *)
Theorem groups_key_order rs : map fst (grp_of kf rs) = first_occ (map kf rs).
Proof.
  induction rs as [|r rs IH] using rev_ind; [reflexivity|].
  rewrite grp_of_snoc, group_add_keys, IH, map_app. cbn [map].
  now rewrite first_occ_snoc, existsb_first_occ.
Qed.

(* 2. no two groups have == keys *)
Theorem groups_keys_distinct rs : nodup_eqb (map fst (grp_of kf rs)) = true.
Proof. rewrite groups_key_order. apply first_occ_nodup. Qed.

Corollary groups_keys_distinct_nth rs i j a b :
  nth_error (map fst (grp_of kf rs)) i = Some a -> nth_error (map fst (grp_of kf rs)) j = Some b ->
  cell_eqb a b = true -> i = j.
Proof. apply nodup_eqb_spec. apply groups_keys_distinct. Qed.

(* 4a. the groups together hold exactly the rows (as a multiset; any keys) *)
Theorem groups_perm rs : Permutation (concat (map snd (grp_of kf rs))) rs.
Proof.
  induction rs as [|r rs IH] using rev_ind; [apply Permutation_refl|].
  rewrite grp_of_snoc. eapply Permutation_trans; [apply group_add_perm|].
  eapply Permutation_trans; [apply perm_skip; exact IH|]. apply Permutation_cons_append.
Qed.

Definition keys_proper (rs : list rowmap) : Prop := Forall (fun r => proper (kf r)) rs.

(* the whole result in closed form: one entry per first occurrence, holding the filter *)
Theorem groups_closed_form rs : keys_proper rs ->
  grp_of kf rs = map (fun k => (k, rows_of_key kf rs k)) (first_occ (map kf rs)).
Proof.
  unfold keys_proper. induction rs as [|r rs IH] using rev_ind; intros Hp; [reflexivity|].
  apply Forall_app in Hp. destruct Hp as [Hp Hr]. inversion Hr as [|r' l' Pr _]; subst.
  rewrite grp_of_snoc, (IH Hp), group_add_closed by apply first_occ_nodup.
  rewrite existsb_first_occ, map_app. cbn [map]. rewrite first_occ_snoc, map_app. f_equal.
  - apply map_ext. intros k. unfold rows_of_key. rewrite filter_app. cbn [filter].
    destruct (cell_eqb (kf r) k); reflexivity.
  - destruct (existsb (cell_eqb (kf r)) (map kf rs)) eqn:E; [reflexivity|]. cbn [map]. f_equal. f_equal.
    unfold rows_of_key. rewrite filter_app. cbn [filter]. unfold proper in Pr. rewrite Pr.
    rewrite filter_nil; [reflexivity|]. intros r1 H1. rewrite cell_eqb_sym.
    apply (existsb_false_forall _ _ E). now apply in_map.
Qed.

(* 3. every group lists its rows completely and in original order *)
Theorem groups_rows_spec rs k grp : keys_proper rs ->
  In (k, grp) (grp_of kf rs) -> grp = filter (fun r => cell_eqb (kf r) k) rs.
Proof.
  intros Hp H. rewrite (groups_closed_form rs Hp) in H. apply in_map_iff in H.
  destruct H as [k' [E _]]. inversion E; subst. reflexivity.
Qed.

Lemma groups_key_in rs k grp : In (k, grp) (grp_of kf rs) -> In k (first_occ (map kf rs)).
Proof. intros H. rewrite <- groups_key_order. change k with (fst (k, grp)). now apply in_map. Qed.

(* 5b. no group is empty *)
Theorem groups_nonempty rs k grp : keys_proper rs -> In (k, grp) (grp_of kf rs) -> grp <> [].
Proof.
  intros Hp H. pose proof (groups_key_in _ _ _ H) as Hk. apply first_occ_incl in Hk.
  apply in_map_iff in Hk. destruct Hk as [r [E Hr]].
  rewrite (groups_rows_spec _ _ _ Hp H). intros N.
  assert (Hin : In r (filter (fun r0 => cell_eqb (kf r0) k) rs)).
  { apply filter_In. split; [assumption|]. subst k.
    unfold keys_proper in Hp. rewrite Forall_forall in Hp. now apply Hp. }
  rewrite N in Hin. destruct Hin.
Qed.

(* 4b. every row is in a group, the one whose key is == to the row's key *)
Theorem groups_cover rs : keys_proper rs ->
  Permutation (concat (map snd (grp_of kf rs))) rs /\
  (forall r, In r rs -> exists k grp, In (k, grp) (grp_of kf rs) /\ In r grp /\ cell_eqb (kf r) k = true).
Proof.
  intros Hp. split; [apply groups_perm|]. intros r Hr.
  assert (Pr : proper (kf r)) by (unfold keys_proper in Hp; rewrite Forall_forall in Hp; now apply Hp).
  assert (E : existsb (cell_eqb (kf r)) (first_occ (map kf rs)) = true).
  { rewrite existsb_first_occ. apply existsb_exists. exists (kf r). split; [now apply in_map | exact Pr]. }
  apply existsb_exists in E. destruct E as [k [Hk E]].
  exists k, (rows_of_key kf rs k). split; [|split].
  - rewrite (groups_closed_form rs Hp). apply in_map_iff. exists k. now split.
  - apply filter_In. now split.
  - exact E.
Qed.

(* 4c. ... and in no other group *)
Theorem groups_unique rs r k1 g1 k2 g2 : keys_proper rs ->
  In (k1, g1) (grp_of kf rs) -> In (k2, g2) (grp_of kf rs) -> In r g1 -> In r g2 ->
  (k1, g1) = (k2, g2).
Proof.
  intros Hp H1 H2 R1 R2.
  pose proof (groups_rows_spec _ _ _ Hp H1) as E1. pose proof (groups_rows_spec _ _ _ Hp H2) as E2.
  rewrite E1 in R1. rewrite E2 in R2. apply filter_In in R1. apply filter_In in R2.
  destruct R1 as [_ R1]. destruct R2 as [_ R2].
  assert (K : cell_eqb k1 k2 = true).
  { eapply cell_eqb_trans; [|exact R2]. now rewrite cell_eqb_sym. }
  assert (k1 = k2).
  { eapply nodup_eqb_In_eq; [apply first_occ_nodup | | | exact K]; eapply groups_key_in; eauto. }
  subst k2. now rewrite E1, E2.
Qed.

(* 4d. two rows share a group iff their keys are == *)
Theorem groups_same_iff rs r1 r2 : keys_proper rs -> In r1 rs -> In r2 rs ->
  ((exists k grp, In (k, grp) (grp_of kf rs) /\ In r1 grp /\ In r2 grp) <-> cell_eqb (kf r1) (kf r2) = true).
Proof.
  intros Hp I1 I2. split.
  - intros [k [grp [H [R1 R2]]]]. rewrite (groups_rows_spec _ _ _ Hp H) in R1, R2.
    apply filter_In in R1. apply filter_In in R2. destruct R1 as [_ R1]. destruct R2 as [_ R2].
    eapply cell_eqb_trans; [exact R1|]. now rewrite cell_eqb_sym.
  - intros E. destruct (proj2 (groups_cover rs Hp) r1 I1) as [k [grp [H [R1 K]]]].
    exists k, grp. split; [assumption|]. split; [assumption|].
    rewrite (groups_rows_spec _ _ _ Hp H). apply filter_In. split; [assumption|].
    rewrite cell_eqb_sym in E. eapply cell_eqb_trans; eauto.
Qed.

(* the number of groups is the number of distinct keys *)
Corollary groups_count rs : length (grp_of kf rs) = length (first_occ (map kf rs)).
Proof. rewrite <- groups_key_order. now rewrite map_length. Qed.

End Generic.

(* why properness is needed for 3: a NaN key opens a group whose row is not == to the key *)
Example nan_key_group :
  let kf := fun r : rowmap => rget r [107%N] in
  let r := [([107%N], CF KF64 FNaN)] in
  grp_of kf [r; r] = [(CF KF64 FNaN, [r]); (CF KF64 FNaN, [r])] /\
  rows_of_key kf [r; r] (CF KF64 FNaN) = [].
Proof. vm_compute. split; reflexivity. Qed.

(* ================================================================== *)
(* D. C04 on frames, single key column                                 *)
(* ================================================================== *)

Lemma all_some_map_some {A B} (g : A -> option B) (h : A -> B) l :
  (forall x, In x l -> g x = Some (h x)) -> all_some (map g l) = Some (map h l).
Proof.
  induction l as [|a l IH]; intros H; [reflexivity|]. cbn [map all_some].
  rewrite (H a) by now left. rewrite IH; [reflexivity|]. intros x Hx. apply H. now right.
Qed.

Lemma rect_col_len f kc : rect f = true -> In kc f -> length (cdata (snd kc)) = nrows f.
Proof.
  unfold rect. rewrite forallb_forall. intros H Hin. specialize (H _ Hin). now apply Nat.eqb_eq in H.
Qed.

(* row i of a rectangular frame: every column's i-th cell *)
Definition row_at (f : frame) (i : nat) : rowmap :=
  map (fun kc => (fst kc, nth i (cdata (snd kc)) CNil)) f.

(* on a rectangular frame every Row(i), i < Nrows, succeeds *)
Lemma frow_rect f i : rect f = true -> (i < nrows f)%nat -> frow f i = Some (row_at f i).
Proof.
  intros R Hi. unfold frow. replace (Nat.ltb i (nrows f)) with true by (symmetry; now apply Nat.ltb_lt).
  unfold row_at. apply all_some_map_some. intros kc Hin.
  rewrite (nth_opt_nth _ _ CNil) by (rewrite (rect_col_len f kc R Hin); exact Hi). reflexivity.
Qed.

Lemma rows_rect f : rect f = true -> rows f = map (row_at f) (seq 0 (nrows f)).
Proof.
  intros R. unfold rows.
  assert (G : forall l, (forall i, In i l -> (i < nrows f)%nat) ->
    flat_map (fun i => match frow f i with Some r => [r] | None => [] end) l = map (row_at f) l).
  { induction l as [|a l IH]; intros H; [reflexivity|]. cbn [flat_map map].
    rewrite (frow_rect f a R) by (apply H; now left). cbn [app]. f_equal. apply IH.
    intros i Hi. apply H. now right. }
  apply G. intros i Hi. apply in_seq in Hi. lia.
Qed.

Lemma all_rows_rect f : rect f = true -> all_some (map (frow f) (seq 0 (nrows f))) = Some (rows f).
Proof.
  intros R. rewrite (rows_rect f R). apply all_some_map_some. intros i Hi. apply in_seq in Hi.
  apply frow_rect; [assumption | lia].
Qed.

Lemma rows_length f : rect f = true -> length (rows f) = nrows f.
Proof. intros R. now rewrite (rows_rect f R), map_length, seq_length. Qed.

(* reading a cell of row i = reading position i of the column *)
Lemma fget_map_vals {A B} (h : A -> B) (f : list (str * A)) k :
  fget (map (fun kc => (fst kc, h (snd kc))) f) k = option_map h (fget f k).
Proof.
  induction f as [|[k' c'] t IH]; [reflexivity|]. cbn [map fget fst snd].
  destruct (str_eqb k k'); [reflexivity | exact IH].
Qed.
Lemma fget_In {A} (f : list (str * A)) k c : fget f k = Some c -> exists k', In (k', c) f.
Proof.
  induction f as [|[k' c'] t IH]; cbn [fget]; [discriminate|].
  destruct (str_eqb k k').
  - intros E. inversion E; subst. exists k'. now left.
  - intros E. destruct (IH E) as [k'' H]. exists k''. now right.
Qed.
Lemma rget_row_at f i k c : fget f k = Some c -> rget (row_at f i) k = nth i (cdata c) CNil.
Proof.
  intros E. unfold rget, row_at.
  rewrite (fget_map_vals (fun c0 : col => nth i (cdata c0) CNil) f k). now rewrite E.
Qed.
Lemma rget_row_at_none f i k : fget f k = None -> rget (row_at f i) k = CNil.
Proof.
  intros E. unfold rget, row_at.
  rewrite (fget_map_vals (fun c0 : col => nth i (cdata c0) CNil) f k). now rewrite E.
Qed.
Lemma map_nth_seq {A} (l : list A) d : map (fun i => nth i l d) (seq 0 (length l)) = l.
Proof.
  induction l as [|a l IH]; [reflexivity|]. cbn [length seq map nth]. f_equal.
  rewrite <- seq_shift, map_map. exact IH.
Qed.
(* the keys of the rows, read down the rows, are the key column *)
Lemma key_column f k c : rect f = true -> fget f k = Some c ->
  map (fun r => rget r k) (rows f) = cdata c.
Proof.
  intros R E. rewrite (rows_rect f R), map_map.
  destruct (fget_In _ _ _ E) as [k' Hin]. pose proof (rect_col_len f _ R Hin) as L. cbn [snd] in L.
  rewrite <- L. rewrite <- (map_nth_seq (cdata c) CNil) at 2.
  apply map_ext. intros i. now apply rget_row_at.
Qed.

Section OneKey.
Variable O : oracles.

(* 6a. Groupby(k) fails exactly when the column is missing *)
Theorem groupby_one_err f k : rect f = true ->
  (op_groupby O f (GOne k) = Err <-> fhas f k = false).
Proof.
  intros R. unfold op_groupby. cbn [gkey_cols forallb]. rewrite andb_true_r, (all_rows_rect f R).
  destruct (fhas f k); cbn [negb]; split; intro H; try discriminate; reflexivity.
Qed.

(* 6b. otherwise it is the generic grouping of the rows by the key cell *)
Theorem groupby_one_ok f k : rect f = true -> fhas f k = true ->
  op_groupby O f (GOne k) = Ok (grp_of (fun r => rget r k) (rows f)).
Proof.
  intros R H. unfold op_groupby. cbn [gkey_cols forallb]. rewrite andb_true_r, (all_rows_rect f R), H.
  reflexivity.
Qed.

(* it never panics, and every aggregation reports the missing column *)
Theorem groupby_never_panics f gk : op_groupby O f gk <> Panic.
Proof.
  unfold op_groupby. destruct (negb (forallb (fhas f) (gkey_cols gk))); [discriminate|].
  destruct (all_some (map (frow f) (seq 0 (nrows f)))); discriminate.
Qed.
Theorem group_agg_err f gk a cols : op_groupby O f gk = Err -> op_group_agg O f gk a cols = Err.
Proof. intros H. unfold op_group_agg. now rewrite H. Qed.
Corollary group_agg_missing_column f k a cols : rect f = true -> fhas f k = false ->
  op_group_agg O f (GOne k) a cols = Err.
Proof. intros R H. apply group_agg_err. now apply groupby_one_err. Qed.

(* the key column holds no NaN (decidable) *)
Definition key_col_proper (f : frame) (k : str) : bool :=
  match fget f k with Some c => forallb properb (cdata c) | None => false end.

Lemma key_col_proper_rows f k : rect f = true -> key_col_proper f k = true ->
  keys_proper (fun r => rget r k) (rows f).
Proof.
  unfold key_col_proper, keys_proper. intros R H. destruct (fget f k) as [c|] eqn:E; [|discriminate].
  rewrite forallb_forall in H. apply Forall_forall. intros r Hr.
  apply H. rewrite <- (key_column f k c R E). now apply (in_map (fun r0 => rget r0 k)).
Qed.
Lemma key_col_proper_fhas f k : key_col_proper f k = true -> fhas f k = true.
Proof. unfold key_col_proper, fhas. destruct (fget f k); [reflexivity | discriminate]. Qed.

(* 6c. on success the result satisfies 2-5 with the key cell as key and rows f as rows *)
Theorem groupby_one_spec f k c : rect f = true -> fget f k = Some c ->
  forallb properb (cdata c) = true ->
  exists G, op_groupby O f (GOne k) = Ok G /\
    (* keys: first appearances down the key column, pairwise not == *)
    map fst G = first_occ (cdata c) /\
    nodup_eqb (map fst G) = true /\
    (* every group: all rows with that key, in order, never empty *)
    (forall key grp, In (key, grp) G ->
       grp = filter (fun r => cell_eqb (rget r k) key) (rows f) /\ grp <> []) /\
    (* partition *)
    Permutation (concat (map snd G)) (rows f) /\
    (forall r, In r (rows f) -> exists key grp, In (key, grp) G /\ In r grp /\ cell_eqb (rget r k) key = true) /\
    (forall r k1 g1 k2 g2, In (k1, g1) G -> In (k2, g2) G -> In r g1 -> In r g2 -> (k1, g1) = (k2, g2)) /\
    (forall r1 r2, In r1 (rows f) -> In r2 (rows f) ->
       ((exists key grp, In (key, grp) G /\ In r1 grp /\ In r2 grp) <-> cell_eqb (rget r1 k) (rget r2 k) = true)).
Proof.
  intros R E P.
  assert (H : fhas f k = true) by (unfold fhas; now rewrite E).
  assert (KP : key_col_proper f k = true) by (unfold key_col_proper; now rewrite E).
  pose proof (key_col_proper_rows f k R KP) as Hp.
  exists (grp_of (fun r => rget r k) (rows f)). split; [now apply groupby_one_ok|].
  split; [rewrite groups_key_order; now rewrite (key_column f k c R E)|].
  split; [apply groups_keys_distinct|].
  split; [intros key grp Hin; split; [now apply groups_rows_spec | eapply groups_nonempty; eauto]|].
  split; [apply groups_perm|].
  split; [apply (groups_cover _ _ Hp)|].
  split; [intros r k1 g1 k2 g2; now apply groups_unique|].
  intros r1 r2. now apply groups_same_iff.
Qed.

End OneKey.

(* ================================================================== *)
(* E. C04 on frames, key LIST: grouping by the "|"-joined %v texts     *)
(* ================================================================== *)

Section ListKey.
Variable O : oracles.

(* the composite key the code builds *)
Definition key_text (ks : list str) (r : rowmap) : str :=
  join_bar (map (fun k => render O (rget r k)) ks).
(* what a key list should mean: all key cells pairwise == *)
Definition keys_agree (ks : list str) (r1 r2 : rowmap) : Prop :=
  Forall (fun k => cell_eqb (rget r1 k) (rget r2 k) = true) ks.
Definition keys_agreeb (ks : list str) (r1 r2 : rowmap) : bool :=
  forallb (fun k => cell_eqb (rget r1 k) (rget r2 k)) ks.
Lemma keys_agreeb_spec ks r1 r2 : keys_agreeb ks r1 r2 = true <-> keys_agree ks r1 r2.
Proof. unfold keys_agreeb, keys_agree. rewrite forallb_forall, Forall_forall. reflexivity. Qed.

(* the premise that excludes the defect class: on these rows equal texts come only
   from == key tuples *)
Definition render_inj_on (ks : list str) (rs : list rowmap) : Prop :=
  forall r1 r2, In r1 rs -> In r2 rs ->
    join_bar (map (fun k => render O (rget r1 k)) ks) = join_bar (map (fun k => render O (rget r2 k)) ks) ->
    keys_agree ks r1 r2.
(* ... it is decidable *)
Definition render_inj_onb (ks : list str) (rs : list rowmap) : bool :=
  forallb (fun r1 => forallb (fun r2 =>
    implb (str_eqb (key_text ks r1) (key_text ks r2)) (keys_agreeb ks r1 r2)) rs) rs.
Lemma render_inj_onb_spec ks rs : render_inj_onb ks rs = true <-> render_inj_on ks rs.
Proof.
  unfold render_inj_onb, render_inj_on. rewrite forallb_forall. split.
  - intros H r1 r2 I1 I2 E. specialize (H r1 I1). rewrite forallb_forall in H. specialize (H r2 I2).
    fold (key_text ks r1) in E. fold (key_text ks r2) in E.
    apply str_eqb_eq in E. rewrite E in H. cbn [implb] in H. now apply keys_agreeb_spec.
  - intros H r1 I1. rewrite forallb_forall. intros r2 I2.
    destruct (str_eqb (key_text ks r1) (key_text ks r2)) eqn:E; [|reflexivity]. cbn [implb].
    apply keys_agreeb_spec. apply H; try assumption. now apply str_eqb_eq in E.
Qed.

(* the converse direction needs that == key cells print alike: true except for 0 and -0 *)
Definition no_negzero_keys (ks : list str) (rs : list rowmap) : bool :=
  forallb (fun r => forallb (fun k => negb (is_negzero (rget r k))) ks) rs.

Lemma render_resp a b : cell_eqb a b = true -> is_negzero a = false -> is_negzero b = false ->
  render O a = render O b.
Proof.
  intros E Na Nb. destruct (cell_eqb_cases a b E) as [H|[H|H]]; [now subst | congruence | congruence].
Qed.

Theorem groupby_list_err f ks : rect f = true ->
  (op_groupby O f (GList ks) = Err <-> forallb (fhas f) ks = false).
Proof.
  intros R. unfold op_groupby. cbn [gkey_cols]. rewrite (all_rows_rect f R).
  destruct (forallb (fhas f) ks); cbn [negb]; split; intro H; try discriminate; reflexivity.
Qed.
Theorem groupby_list_ok f ks : rect f = true -> forallb (fhas f) ks = true ->
  op_groupby O f (GList ks) = Ok (grp_of (fun r => CS (key_text ks r)) (rows f)).
Proof.
  intros R H. unfold op_groupby. cbn [gkey_cols]. rewrite (all_rows_rect f R), H. reflexivity.
Qed.
Lemma groupby_list_inv f ks G : rect f = true -> op_groupby O f (GList ks) = Ok G ->
  G = grp_of (fun r => CS (key_text ks r)) (rows f).
Proof.
  intros R H. destruct (forallb (fhas f) ks) eqn:E.
  - rewrite (groupby_list_ok f ks R E) in H. now inversion H.
  - apply (groupby_list_err f ks R) in E. congruence.
Qed.

Lemma text_keys_proper ks rs : keys_proper (fun r => CS (key_text ks r)) rs.
Proof. apply Forall_forall. intros r _. unfold proper. cbn [cell_eqb]. apply str_eqb_refl. Qed.

(* what the code really does: it partitions by the TEXT (all of 2-5 hold for that key) *)
Theorem groupby_list_text f ks G : rect f = true -> op_groupby O f (GList ks) = Ok G ->
  map fst G = first_occ (map (fun r => CS (key_text ks r)) (rows f)) /\
  nodup_eqb (map fst G) = true /\
  (forall key grp, In (key, grp) G ->
     grp = filter (fun r => cell_eqb (CS (key_text ks r)) key) (rows f) /\ grp <> []) /\
  Permutation (concat (map snd G)) (rows f) /\
  (forall r1 r2, In r1 (rows f) -> In r2 (rows f) ->
     ((exists key grp, In (key, grp) G /\ In r1 grp /\ In r2 grp) <-> key_text ks r1 = key_text ks r2)).
Proof.
  intros R H. rewrite (groupby_list_inv f ks G R H).
  pose proof (text_keys_proper ks (rows f)) as Hp.
  split; [apply groups_key_order|]. split; [apply groups_keys_distinct|].
  split; [intros key grp Hin; split; [now apply groups_rows_spec | eapply groups_nonempty; eauto]|].
  split; [apply groups_perm|].
  intros r1 r2 I1 I2. rewrite (groups_same_iff _ _ r1 r2 Hp I1 I2). cbn [cell_eqb]. apply str_eqb_eq.
Qed.

(* 7. PARTIAL (known defect: the joined text is not injective).  Under render_inj_on,
   rows that share a group have == key tuples; rows with == key tuples share a group when
   no key cell is a float -0 (0 and -0 are == but print "0" and "-0").  Without the
   premises both directions fail: groupby_list_refuted, groupby_list_int_text_collide,
   groupby_list_zero_split below. *)
Theorem groupby_list_partial f ks G : rect f = true -> op_groupby O f (GList ks) = Ok G ->
  forall r1 r2, In r1 (rows f) -> In r2 (rows f) ->
  (render_inj_on ks (rows f) ->
     (exists key grp, In (key, grp) G /\ In r1 grp /\ In r2 grp) -> keys_agree ks r1 r2) /\
  (no_negzero_keys ks (rows f) = true ->
     keys_agree ks r1 r2 -> exists key grp, In (key, grp) G /\ In r1 grp /\ In r2 grp).
Proof.
  intros R H r1 r2 I1 I2.
  destruct (groupby_list_text f ks G R H) as [_ [_ [_ [_ S]]]]. specialize (S r1 r2 I1 I2). split.
  - intros Inj Sh. apply Inj; try assumption. now apply S.
  - intros NZ A. apply S. unfold key_text. f_equal. apply map_ext_in. intros k Hk.
    unfold keys_agree in A. rewrite Forall_forall in A.
    unfold no_negzero_keys in NZ. rewrite forallb_forall in NZ.
    pose proof (NZ r1 I1) as N1. pose proof (NZ r2 I2) as N2. rewrite forallb_forall in N1, N2.
    apply render_resp; [now apply A | |].
    + specialize (N1 k Hk). now apply negb_true_iff in N1.
    + specialize (N2 k Hk). now apply negb_true_iff in N2.
Qed.

Corollary groupby_list_iff f ks G : rect f = true -> op_groupby O f (GList ks) = Ok G ->
  render_inj_onb ks (rows f) = true -> no_negzero_keys ks (rows f) = true ->
  forall r1 r2, In r1 (rows f) -> In r2 (rows f) ->
  ((exists key grp, In (key, grp) G /\ In r1 grp /\ In r2 grp) <-> keys_agree ks r1 r2).
Proof.
  intros R H Inj NZ r1 r2 I1 I2. apply render_inj_onb_spec in Inj.
  destruct (groupby_list_partial f ks G R H r1 r2 I1 I2) as [A B]. split; auto.
Qed.

End ListKey.

(* ---- concrete frames ---- *)
Definition O0 : oracles := {| o_pf := []; o_tparse := [];
  o_fmt := [(CF KF64 (FFin 0), [48%N]); (CF KF64 FNegZero, [45%N; 48%N])] |}.
Definition sa : str := [97%N].   (* "a" *)
Definition sb : str := [98%N].   (* "b" *)
Definition sv : str := [118%N].  (* "v" *)
Definition sx : str := [120%N].
Definition sxy : str := [120%N; 124%N; 121%N].   (* "x|y" *)
Definition syz : str := [121%N; 124%N; 122%N].   (* "y|z" *)
Definition sz : str := [122%N].

(* rows ("x|y","z") and ("x","y|z"): different key tuples, ONE group *)
Definition f_bar : frame := [(sa, (sa, [CS sxy; CS sx])); (sb, (sb, [CS sz; CS syz]))].
Example groupby_list_refuted :
  wf_frame f_bar = true /\
  (exists key r1 r2,
     rows f_bar = [r1; r2] /\
     op_groupby O0 f_bar (GList [sa; sb]) = Ok [(key, [r1; r2])] /\
     keys_agreeb [sa; sb] r1 r2 = false) /\
  render_inj_onb O0 [sa; sb] (rows f_bar) = false /\
  no_negzero_keys [sa; sb] (rows f_bar) = true.
Proof.
  split; [vm_compute; reflexivity|]. split; [|split; vm_compute; reflexivity].
  eexists. eexists. eexists. vm_compute. repeat split.
Qed.

(* int 1, "1" and int64 1 are three keys for Groupby("a") and one for Groupby(["a"]) *)
Definition f_one : frame := [(sa, (sa, [CI KInt 1; CS [49%N]; CI KInt64 1]))].
Example groupby_list_int_text_collide :
  (exists r1 r2 r3,
     rows f_one = [r1; r2; r3] /\
     op_groupby O0 f_one (GOne sa) = Ok [(CI KInt 1, [r1]); (CS [49%N], [r2]); (CI KInt64 1, [r3])] /\
     op_groupby O0 f_one (GList [sa]) = Ok [(CS [49%N], [r1; r2; r3])]) /\
  render_inj_onb O0 [sa] (rows f_one) = false.
Proof. split; [|vm_compute; reflexivity]. do 3 eexists. vm_compute. repeat split. Qed.

(* the other direction: 0.0 and -0.0 are == (one group for Groupby("a")) but print
   differently (two groups for Groupby(["a"])) *)
Definition f_zero : frame := [(sa, (sa, [CF KF64 (FFin 0); CF KF64 FNegZero]))].
Example groupby_list_zero_split :
  (exists r1 r2,
     rows f_zero = [r1; r2] /\
     op_groupby O0 f_zero (GOne sa) = Ok [(CF KF64 (FFin 0), [r1; r2])] /\
     op_groupby O0 f_zero (GList [sa]) = Ok [(CS [48%N], [r1]); (CS [45%N; 48%N], [r2])] /\
     keys_agreeb [sa] r1 r2 = true) /\
  render_inj_onb O0 [sa] (rows f_zero) = true /\
  no_negzero_keys [sa] (rows f_zero) = false.
Proof. split; [|split; vm_compute; reflexivity]. do 2 eexists. vm_compute. repeat split. Qed.

(* ================================================================== *)
(* F. C05: the value of one group                                      *)
(* ================================================================== *)

(* the numeric cells: every integer width and both float widths; nil, text, bool, time are not *)
Definition is_numeric (c : cell) : bool := match c with CI _ _ | CF _ _ => true | _ => false end.
Definition num_of (c : cell) : fl :=
  match c with CI _ z => fl_of_Z z | CF _ x => x | _ => FFin 0 end.

Lemma is_numeric_kinds c :
  is_numeric c = true <-> (exists k z, c = CI k z) \/ (exists k x, c = CF k x).
Proof.
  split.
  - destruct c as [|k z|k x|s|b|t]; cbn; intros H; try discriminate; [left | right]; eauto.
  - intros [[k [z E]]|[k [x E]]]; subst; reflexivity.
Qed.
Lemma gnum_spec c : gnum c = if is_numeric c then Some (num_of c) else None.
Proof. destruct c; reflexivity. Qed.

(* 8a. group_nums: the numeric cells of the column, in row order, as float64; a row that
   lacks the column counts as nil *)
Theorem group_nums_spec rs cn :
  group_nums rs cn = map num_of (filter is_numeric (map (fun r => rget r cn) rs)).
Proof.
  unfold group_nums. induction rs as [|r rs IH]; [reflexivity|].
  cbn [flat_map map filter]. rewrite IH. unfold rget.
  destruct (fget r cn) as [[|k z|k x|s|b|t]|]; reflexivity.
Qed.
Corollary group_nums_length rs cn :
  length (group_nums rs cn) = length (filter is_numeric (map (fun r => rget r cn) rs)).
Proof. now rewrite group_nums_spec, map_length. Qed.

Lemma group_nums_app a b cn : group_nums (a ++ b) cn = group_nums a cn ++ group_nums b cn.
Proof. unfold group_nums. apply flat_map_app. Qed.
Lemma group_nums_concat L cn : group_nums (concat L) cn = concat (map (fun g => group_nums g cn) L).
Proof.
  induction L as [|g L IH]; [reflexivity|]. cbn [concat map]. now rewrite group_nums_app, IH.
Qed.
Lemma group_nums_perm a b cn : Permutation a b -> Permutation (group_nums a cn) (group_nums b cn).
Proof. intros H. unfold group_nums. now apply Permutation_flat_map. Qed.

(* 8b. Count / Sum / Mean *)
Theorem group_value_count rs cn : group_value GCount rs cn = CI KInt (Z.of_nat (length rs)).
Proof. reflexivity. Qed.
Theorem group_value_sum rs cn : group_value GSum rs cn = CF KF64 (fl_sum (group_nums rs cn)).
Proof. reflexivity. Qed.
Theorem group_value_mean_none rs cn :
  filter is_numeric (map (fun r => rget r cn) rs) = [] -> group_value GMean rs cn = CF KF64 (FFin 0).
Proof. intros H. unfold group_value. cbv zeta. now rewrite group_nums_spec, H. Qed.
Theorem group_value_mean_some rs cn :
  filter is_numeric (map (fun r => rget r cn) rs) <> [] ->
  group_value GMean rs cn = CF KF64 (fl_mean (group_nums rs cn)).
Proof.
  intros H. unfold group_value. cbv zeta.
  destruct (group_nums rs cn) as [|x l] eqn:E; [|reflexivity].
  rewrite group_nums_spec in E. apply map_eq_nil in E. contradiction.
Qed.
(* the mean divides by the number of numeric cells, not by the group size *)
Theorem group_value_mean_unfold rs cn : group_nums rs cn <> [] ->
  group_value GMean rs cn =
  CF KF64 (fl_div_count (fl_sum (group_nums rs cn)) (Z.of_nat (length (group_nums rs cn)))).
Proof.
  intros H. unfold group_value. cbv zeta. destruct (group_nums rs cn); [contradiction | reflexivity].
Qed.

(* ================================================================== *)
(* G. C05: conservation over the partition                             *)
(* ================================================================== *)

(* the exact (unrounded) sum of the finite entries, in grid units 2^-1074 *)
Fixpoint exact_sum (l : list fl) : Z :=
  match l with
  | [] => 0
  | FFin m :: t => m + exact_sum t
  | _ :: t => exact_sum t
  end.
Definition zsum (l : list Z) : Z := fold_right Z.add 0 l.
Definition all_finite (l : list fl) : bool :=
  forallb (fun x => match x with FFin _ => true | _ => false end) l.

Lemma exact_sum_app a b : exact_sum (a ++ b) = exact_sum a + exact_sum b.
Proof.
  induction a as [|x a IH]; [reflexivity|]. cbn [app exact_sum]. destruct x; rewrite IH; lia.
Qed.
Lemma exact_sum_perm a b : Permutation a b -> exact_sum a = exact_sum b.
Proof.
  induction 1 as [|x l l' _ IH|x y l|l l' l'' _ IH1 _ IH2].
  - reflexivity.
  - cbn [exact_sum]. destruct x; rewrite IH; reflexivity.
  - cbn [exact_sum]. destruct x, y; lia.
  - congruence.
Qed.
Lemma exact_sum_concat L : exact_sum (concat L) = zsum (map exact_sum L).
Proof.
  induction L as [|l L IH]; [reflexivity|]. cbn [concat map zsum fold_right].
  rewrite exact_sum_app, IH. reflexivity.
Qed.
(* on all-finite lists exact_sum is the sum of all entries *)
Lemma exact_sum_all_finite l : all_finite l = true ->
  exists ms, l = map FFin ms /\ exact_sum l = zsum ms.
Proof.
  induction l as [|x l IH]; intros H; [exists []; now split|].
  cbn [all_finite forallb] in H. apply andb_prop in H. destruct H as [Hx Hl].
  destruct x as [| | | |m]; try discriminate. destruct (IH Hl) as [ms [E S]].
  exists (m :: ms). cbn [map exact_sum zsum fold_right]. split; [now rewrite E | now rewrite S].
Qed.

Section Conservation.
Variable kf : rowmap -> cell.

(* 9. the exact per-group sums add up to the exact sum of the whole column, for every key
   function and every column.  (exact_sum skips NaN and infinities; when the numeric
   cells are all finite - all_finite - it is the true sum, see exact_sum_all_finite.
   The model's fl_sum rounds after every addition like the Go loop, so the law is about
   the exact sums.) *)
Theorem group_sum_conservation rs cn :
  zsum (map (fun kg => exact_sum (group_nums (snd kg) cn)) (grp_of kf rs))
  = exact_sum (group_nums rs cn).
Proof.
  rewrite <- (exact_sum_perm _ _ (group_nums_perm _ _ cn (groups_perm kf rs))).
  rewrite group_nums_concat, exact_sum_concat, !map_map. reflexivity.
Qed.

(* the numeric cells themselves are conserved as a multiset: nothing is lost or invented *)
Theorem group_nums_conservation rs cn :
  Permutation (concat (map (fun kg => group_nums (snd kg) cn) (grp_of kf rs))) (group_nums rs cn).
Proof.
  rewrite <- (map_map snd (fun g => group_nums g cn)), <- group_nums_concat.
  apply group_nums_perm. apply groups_perm.
Qed.
Corollary group_finite_conservation rs cn kg : all_finite (group_nums rs cn) = true ->
  In kg (grp_of kf rs) -> all_finite (group_nums (snd kg) cn) = true.
Proof.
  intros H Hin. unfold all_finite in *. rewrite forallb_forall in *. intros x Hx. apply H.
  eapply Permutation_in; [apply group_nums_conservation|].
  apply in_concat. exists (group_nums (snd kg) cn). split; [|assumption].
  now apply (in_map (fun kg0 => group_nums (snd kg0) cn)).
Qed.

(* the counts add up to the number of rows *)
Lemma length_concat_sum {A} (L : list (list A)) : length (concat L) = list_sum (map (@length A) L).
Proof. induction L as [|l L IH]; [reflexivity|]. cbn [concat map list_sum fold_right]. now rewrite app_length, IH. Qed.
Theorem group_count_conservation rs :
  list_sum (map (fun kg => length (snd kg)) (grp_of kf rs)) = length rs.
Proof.
  rewrite <- (Permutation_length (groups_perm kf rs)), length_concat_sum, map_map. reflexivity.
Qed.

End Conservation.

(* ================================================================== *)
(* H. C05: the aggregated frame                                        *)
(* ================================================================== *)

Lemma str_compare_gt_neq k k' : str_compare k k' = Gt -> str_eqb k k' = false.
Proof. intros H. apply str_eqb_neq. intros E. apply str_compare_eq in E. congruence. Qed.
Lemma str_compare_lt_ltb k k' : str_compare k k' = Lt -> str_ltb k k' = true.
Proof. intros H. unfold str_ltb. now rewrite H. Qed.
Lemma str_compare_gt_ltb k k' : str_compare k k' = Gt -> str_ltb k' k = true.
Proof. intros H. unfold str_ltb. rewrite (str_compare_antisym k k'). now rewrite H. Qed.
Lemma sorted_cons2 a b t : sorted_keys (a :: b :: t) = str_ltb a b && sorted_keys (b :: t).
Proof. reflexivity. Qed.

Section FMap.
Context {A : Type}.
Implicit Types (f : list (str * A)) (k : str) (c : A).

Lemma fkeys_cons k c f : fkeys ((k, c) :: f) = k :: fkeys f.
Proof. reflexivity. Qed.

Lemma fget_fset_same f k c : fget (fset f k c) k = Some c.
Proof.
  induction f as [|[k' c'] t IH]; cbn [fset fget].
  - now rewrite str_eqb_refl.
  - destruct (str_compare k k') eqn:E; cbn [fget].
    + now rewrite str_eqb_refl.
    + now rewrite str_eqb_refl.
    + rewrite (str_compare_gt_neq _ _ E). exact IH.
Qed.
Lemma fget_fset_other f k k' c : k <> k' -> fget (fset f k c) k' = fget f k'.
Proof.
  intros N. assert (H : str_eqb k' k = false) by (apply str_eqb_neq; congruence).
  induction f as [|[k0 c0] t IH]; cbn [fset fget].
  - now rewrite H.
  - destruct (str_compare k k0) eqn:E; cbn [fget].
    + apply str_compare_eq in E. subst k0. now rewrite H.
    + now rewrite H.
    + now rewrite IH.
Qed.
Lemma fhas_fset f k k' c : fhas (fset f k c) k' = str_eqb k' k || fhas f k'.
Proof.
  unfold fhas. destruct (str_eqb k' k) eqn:E.
  - apply str_eqb_eq in E. subst k'. now rewrite fget_fset_same.
  - apply str_eqb_neq in E. rewrite fget_fset_other by congruence. reflexivity.
Qed.
Lemma fset_sorted_aux k c : forall f lo,
  sorted_keys (lo :: fkeys f) = true -> str_ltb lo k = true ->
  sorted_keys (lo :: fkeys (fset f k c)) = true.
Proof.
  induction f as [|[k0 c0] t IH]; intros lo Hs Hlo; cbn [fset].
  - rewrite fkeys_cons, sorted_cons2, Hlo. reflexivity.
  - rewrite fkeys_cons, sorted_cons2 in Hs. apply andb_prop in Hs. destruct Hs as [H1 H2].
    destruct (str_compare k k0) eqn:E.
    + apply str_compare_eq in E. subst k0. rewrite fkeys_cons, sorted_cons2, H1. exact H2.
    + rewrite !fkeys_cons, !sorted_cons2, Hlo, (str_compare_lt_ltb _ _ E). exact H2.
    + rewrite fkeys_cons, sorted_cons2, H1. cbn [andb].
      apply IH; [exact H2 | now apply str_compare_gt_ltb].
Qed.
Lemma fset_sorted f k c :
  sorted_keys (fkeys f) = true -> sorted_keys (fkeys (fset f k c)) = true.
Proof.
  destruct f as [|[k0 c0] t]; intros Hs; cbn [fset]; [reflexivity|].
  rewrite fkeys_cons in Hs.
  destruct (str_compare k k0) eqn:E.
  - apply str_compare_eq in E. subst k0. now rewrite fkeys_cons.
  - rewrite !fkeys_cons, sorted_cons2, (str_compare_lt_ltb _ _ E). exact Hs.
  - rewrite fkeys_cons. apply fset_sorted_aux; [exact Hs | now apply str_compare_gt_ltb].
Qed.
Lemma In_fset f k c kc : In kc (fset f k c) -> kc = (k, c) \/ In kc f.
Proof.
  induction f as [|[k0 c0] t IH]; cbn [fset]; intros H.
  - destruct H as [H|[]]. now left.
  - destruct (str_compare k k0).
    + destruct H as [H|H]; [now left | right; now right].
    + destruct H as [H|H]; [now left | now right].
    + destruct H as [H|H]; [right; now left|].
      destruct (IH H) as [H'|H']; [now left | right; now right].
Qed.

(* below a sorted list's head nothing is found *)
Lemma fget_below_sorted f lo k : sorted_keys (lo :: fkeys f) = true -> str_ltb k lo = true -> fget f k = None.
Proof.
  revert lo. induction f as [|[k0 c0] t IH]; intros lo Hs Hk; [reflexivity|].
  rewrite fkeys_cons, sorted_cons2 in Hs. apply andb_prop in Hs. destruct Hs as [H1 H2].
  assert (L : str_ltb k k0 = true) by (eapply str_ltb_trans; eauto).
  cbn [fget]. destruct (str_eqb k k0) eqn:E.
  - apply str_eqb_eq in E. subst k0. now rewrite str_ltb_irrefl in L.
  - eapply IH; eauto.
Qed.
(* a new key makes the sorted list one longer, a known key keeps its length *)
Lemma fset_length f k c : sorted_keys (fkeys f) = true ->
  length (fset f k c) = if fhas f k then length f else S (length f).
Proof.
  unfold fhas. induction f as [|[k0 c0] t IH]; intros Hs; [reflexivity|].
  cbn [fset fget]. destruct (str_compare k k0) eqn:E.
  - apply str_compare_eq in E. subst k0. now rewrite str_eqb_refl.
  - assert (N : str_eqb k k0 = false).
    { apply str_eqb_neq. intros Q. subst k0. apply str_compare_lt_ltb in E. now rewrite str_ltb_irrefl in E. }
    rewrite N. rewrite fkeys_cons in Hs.
    rewrite (fget_below_sorted t k0 k Hs (str_compare_lt_ltb _ _ E)). reflexivity.
  - rewrite (str_compare_gt_neq _ _ E). cbn [length]. rewrite IH.
    + destruct (fget t k); reflexivity.
    + rewrite fkeys_cons in Hs. destruct t as [|[k1 c1] t']; [reflexivity|].
      rewrite fkeys_cons, sorted_cons2 in Hs. apply andb_prop in Hs. now destruct Hs.
Qed.

(* writing one computed value per name *)
Lemma fold_fset_fget (F : str -> A) cols : forall init k,
  fget (fold_left (fun acc cn => fset acc cn (F cn)) cols init) k
  = if existsb (str_eqb k) cols then Some (F k) else fget init k.
Proof.
  induction cols as [|c cols IH]; intros init k; [reflexivity|]. cbn [fold_left existsb].
  rewrite IH. destruct (str_eqb k c) eqn:E; cbn [orb].
  - apply str_eqb_eq in E. subst c. rewrite fget_fset_same. now destruct (existsb (str_eqb k) cols).
  - apply str_eqb_neq in E. rewrite fget_fset_other by congruence. reflexivity.
Qed.
Lemma fold_fset_In (F : str -> A) (P : str * A -> Prop) cols : forall init,
  (forall kc, In kc init -> P kc) -> (forall cn, In cn cols -> P (cn, F cn)) ->
  forall kc, In kc (fold_left (fun acc cn => fset acc cn (F cn)) cols init) -> P kc.
Proof.
  induction cols as [|c cols IH]; intros init Hi Hc kc Hin; [now apply Hi|].
  cbn [fold_left] in Hin. eapply IH; [| |exact Hin].
  - intros kc' H'. apply In_fset in H'. destruct H' as [H'|H']; [subst; apply Hc; now left | now apply Hi].
  - intros cn Hcn. apply Hc. now right.
Qed.
Lemma fold_fset_sorted (F : str -> A) cols : forall init, sorted_keys (fkeys init) = true ->
  sorted_keys (fkeys (fold_left (fun acc cn => fset acc cn (F cn)) cols init)) = true.
Proof.
  induction cols as [|c cols IH]; intros init Hs; [assumption|]. cbn [fold_left].
  apply IH. now apply fset_sorted.
Qed.
Lemma fold_fset_length (F : str -> A) cols : forall init, sorted_keys (fkeys init) = true ->
  NoDup cols -> (forall cn, In cn cols -> fhas init cn = false) ->
  length (fold_left (fun acc cn => fset acc cn (F cn)) cols init) = (length init + length cols)%nat.
Proof.
  induction cols as [|c cols IH]; intros init Hs Nd Hn; cbn [fold_left length]; [lia|].
  inversion Nd as [|c' l' Nc Nd']; subst.
  rewrite IH; [| now apply fset_sorted | assumption |].
  - rewrite (fset_length init c (F c) Hs), (Hn c) by now left. lia.
  - intros cn Hcn. rewrite fhas_fset, (Hn cn) by now right.
    replace (str_eqb cn c) with false; [reflexivity|]. symmetry. apply str_eqb_neq. intros Q. subst. contradiction.
Qed.

End FMap.

Lemma nodup_str_le l : (length (nodup_str l) <= length l)%nat.
Proof.
  induction l as [|x t IH]; [apply le_n|]. cbn [nodup_str].
  destruct (existsb (str_eqb x) t); cbn [length]; lia.
Qed.
Lemma nodup_str_full l : length (nodup_str l) = length l -> NoDup l.
Proof.
  induction l as [|x t IH]; intros H; [constructor|]. cbn [nodup_str] in H.
  destruct (existsb (str_eqb x) t) eqn:E.
  - pose proof (nodup_str_le t). cbn [length] in H. lia.
  - cbn [length] in H. constructor; [|apply IH; lia].
    intros Hin. assert (T : existsb (str_eqb x) t = true).
    { apply existsb_exists. exists x. split; [assumption | apply str_eqb_refl]. }
    congruence.
Qed.

(* the frame built by GroupedDataFrame.Sum/Mean/Count from groups g and column names cs *)
Definition agg_col (a : gagg) (g : groups) (cn : str) : col :=
  (cn, map (fun kr => group_value a (snd kr) cn) g).
Definition agg_frame (a : gagg) (g : groups) (cs : list str) : frame :=
  fold_left (fun acc cn => fset acc cn (agg_col a g cn)) cs [(s_groupkey, (s_groupkey, map fst g))].
(* the names that are aggregated: the requested ones; Sum/Mean with none requested take every
   column seen in a row except the key column *)
Definition agg_cols (a : gagg) (gk : gkey) (g : groups) (cols : list str) : list str :=
  match a with
  | GCount => cols
  | _ => if null cols then all_group_cols g (gkey_name gk) else cols
  end.

Lemma group_agg_inv O f gk a cols fr : op_group_agg O f gk a cols = Ok fr ->
  exists g, op_groupby O f gk = Ok g /\
    NoDup (agg_cols a gk g cols) /\
    existsb (str_eqb s_groupkey) (agg_cols a gk g cols) = false /\
    fr = agg_frame a g (agg_cols a gk g cols).
Proof.
  intros H. unfold op_group_agg in H.
  destruct (op_groupby O f gk) as [g| |]; cbn [bind] in H; try discriminate.
  exists g. split; [reflexivity|]. cbv zeta in H. fold (agg_cols a gk g cols) in H.
  destruct (negb (Nat.eqb (length (nodup_str (agg_cols a gk g cols))) (length (agg_cols a gk g cols)))
            || existsb (str_eqb s_groupkey) (agg_cols a gk g cols)) eqn:E; [discriminate|].
  apply orb_false_elim in E. destruct E as [E1 E2]. apply negb_false_iff in E1. apply Nat.eqb_eq in E1.
  split; [now apply nodup_str_full|]. split; [assumption|]. now inversion H.
Qed.
(* duplicate names or a column called "GroupKey" are errors *)
Lemma group_agg_dup_err O f gk a cols g : op_groupby O f gk = Ok g ->
  existsb (str_eqb s_groupkey) (agg_cols a gk g cols) = true -> op_group_agg O f gk a cols = Err.
Proof.
  intros H E. unfold op_group_agg. rewrite H. cbn [bind]. cbv zeta. fold (agg_cols a gk g cols).
  now rewrite E, orb_true_r.
Qed.

Section AggFrame.
Variables (a : gagg) (g : groups) (cs : list str).
Hypothesis Hnd : NoDup cs.
Hypothesis Hgk : existsb (str_eqb s_groupkey) cs = false.

Lemma agg_frame_fget k :
  fget (agg_frame a g cs) k =
  if existsb (str_eqb k) cs then Some (agg_col a g k)
  else if str_eqb k s_groupkey then Some (s_groupkey, map fst g) else None.
Proof. unfold agg_frame. rewrite (fold_fset_fget (agg_col a g)). reflexivity. Qed.

(* 10a. column "GroupKey": the group keys in first-appearance order *)
Theorem agg_frame_groupkey : fget (agg_frame a g cs) s_groupkey = Some (s_groupkey, map fst g).
Proof. now rewrite agg_frame_fget, Hgk, str_eqb_refl. Qed.

(* 10b. one column per name: row i holds the value of group i *)
Theorem agg_frame_col cn : In cn cs ->
  fget (agg_frame a g cs) cn = Some (cn, map (fun kr => group_value a (snd kr) cn) g).
Proof.
  intros H. rewrite agg_frame_fget.
  replace (existsb (str_eqb cn) cs) with true; [reflexivity|].
  symmetry. apply existsb_exists. exists cn. split; [assumption | apply str_eqb_refl].
Qed.

(* 10c. and no other column *)
Theorem agg_frame_fhas k : fhas (agg_frame a g cs) k = str_eqb k s_groupkey || existsb (str_eqb k) cs.
Proof.
  unfold fhas. rewrite agg_frame_fget.
  destruct (existsb (str_eqb k) cs); [now rewrite orb_true_r|]. rewrite orb_false_r.
  destruct (str_eqb k s_groupkey); reflexivity.
Qed.
Theorem agg_frame_ncols : ncols (agg_frame a g cs) = S (length cs).
Proof.
  unfold ncols, agg_frame. rewrite fold_fset_length; try assumption; [reflexivity | reflexivity|].
  intros cn Hcn. unfold fhas. cbn [fget].
  replace (str_eqb cn s_groupkey) with false; [reflexivity|]. symmetry. apply str_eqb_neq. intros Q. subst cn.
  assert (T : existsb (str_eqb s_groupkey) cs = true).
  { apply existsb_exists. exists s_groupkey. split; [assumption | apply str_eqb_refl]. }
  congruence.
Qed.

Lemma agg_frame_cols_ok kc : In kc (agg_frame a g cs) ->
  length (cdata (snd kc)) = length g /\ fst kc = cname (snd kc).
Proof.
  unfold agg_frame. revert kc.
  apply (fold_fset_In (agg_col a g)
           (fun kc => length (cdata (snd kc)) = length g /\ fst kc = cname (snd kc))).
  - intros kc' [E|[]]. subst kc'. cbn. now rewrite map_length.
  - intros cn _. cbn. now rewrite map_length.
Qed.

(* 10d. one row per group; the frame is well formed *)
Theorem agg_frame_nrows : nrows (agg_frame a g cs) = length g.
Proof.
  pose proof agg_frame_groupkey as H. apply fget_In in H. destruct H as [k' H].
  destruct (agg_frame a g cs) as [|[k0 c0] t] eqn:E; [destruct H|].
  cbn [nrows]. apply (agg_frame_cols_ok (k0, c0)). rewrite E. now left.
Qed.
Theorem agg_frame_wf : wf_frame (agg_frame a g cs) = true.
Proof.
  unfold wf_frame. apply andb_true_intro. split; [apply andb_true_intro; split|].
  - unfold rect. apply forallb_forall. intros kc Hin. apply Nat.eqb_eq.
    rewrite agg_frame_nrows. now apply agg_frame_cols_ok.
  - unfold names_ok. apply forallb_forall. intros kc Hin.
    destruct (agg_frame_cols_ok kc Hin) as [_ E]. rewrite E. apply str_eqb_refl.
  - unfold agg_frame. now apply fold_fset_sorted.
Qed.

End AggFrame.

(* 10. the result of Sum/Mean/Count on success *)
Theorem group_agg_shape O f gk a cols fr : op_group_agg O f gk a cols = Ok fr ->
  exists g, op_groupby O f gk = Ok g /\
    let cs := agg_cols a gk g cols in
    wf_frame fr = true /\
    nrows fr = length g /\
    ncols fr = S (length cs) /\
    fget fr s_groupkey = Some (s_groupkey, map fst g) /\
    (forall cn, In cn cs -> fget fr cn = Some (cn, map (fun kr => group_value a (snd kr) cn) g)) /\
    (forall k, fhas fr k = str_eqb k s_groupkey || existsb (str_eqb k) cs).
Proof.
  intros H. destruct (group_agg_inv O f gk a cols fr H) as [g [Hg [Nd [Gk E]]]].
  exists g. split; [assumption|]. cbv zeta. subst fr.
  split; [now apply agg_frame_wf|]. split; [now apply agg_frame_nrows|].
  split; [now apply agg_frame_ncols|]. split; [now apply agg_frame_groupkey|].
  split; [intros cn; now apply agg_frame_col | intros k; now apply agg_frame_fhas].
Qed.

(* single key on a rectangular frame with a proper key column: "GroupKey" is the list of
   first appearances down the key column, and Count gives the size of each group *)
Corollary group_count_one O f k c cols fr : rect f = true -> fget f k = Some c ->
  op_group_agg O f (GOne k) GCount cols = Ok fr ->
  fget fr s_groupkey = Some (s_groupkey, first_occ (cdata c)) /\
  forall cn, In cn cols ->
    fget fr cn = Some (cn, map (fun kr => CI KInt (Z.of_nat (length (snd kr))))
                               (grp_of (fun r => rget r k) (rows f))).
Proof.
  intros R E H. destruct (group_agg_shape _ _ _ _ _ _ H) as [g [Hg [_ [_ [_ [K [C _]]]]]]].
  assert (Hh : fhas f k = true) by (unfold fhas; now rewrite E).
  rewrite (groupby_one_ok O f k R Hh) in Hg. inversion Hg; subst g. split.
  - rewrite K. now rewrite groups_key_order, (key_column f k c R E).
  - intros cn Hcn. now rewrite (C cn Hcn).
Qed.

(* ================================================================== *)
(* I. a concrete frame: keys 1, "1", int64 1, nil, true                *)
(* ================================================================== *)

Definition s1 : str := [49%N].   (* "1" *)
Definition f_mix : frame :=
  [(sa, (sa, [CI KInt 1; CS s1; CI KInt64 1; CNil; CB true; CI KInt 1; CS s1; CNil]));
   (sv, (sv, [CI KInt 10; CI KInt8 5; CF KF32 (fl_of_Z 1); CS [55%N]; CNil;
              CI KUint16 3; CB true; CF KF64 (fl_of_Z 4)]))].

(* the hypotheses of groupby_one_spec / group_agg_shape are met *)
Example f_mix_hyps :
  wf_frame f_mix = true /\ rect f_mix = true /\ key_col_proper f_mix sa = true /\
  fhas f_mix sa = true /\ fhas f_mix sb = false.
Proof. vm_compute. repeat split. Qed.

(* five groups: Go's == keeps int 1, "1" and int64 1 apart; nil and true are keys too *)
Example f_mix_groups :
  match op_groupby O0 f_mix (GOne sa) with
  | Ok g => map (fun kg => (fst kg, map (fun r => rget r sv) (snd kg))) g
  | _ => []
  end =
  [(CI KInt 1, [CI KInt 10; CI KUint16 3]);
   (CS s1, [CI KInt8 5; CB true]);
   (CI KInt64 1, [CF KF32 (fl_of_Z 1)]);
   (CNil, [CS [55%N]; CF KF64 (fl_of_Z 4)]);
   (CB true, [CNil])].
Proof. vm_compute. reflexivity. Qed.

(* the same frame grouped by the LIST ["a"]: 1, "1" and int64 1 fall together *)
Example f_mix_groups_list :
  match op_groupby O0 f_mix (GList [sa]) with
  | Ok g => map (fun kg => (fst kg, length (snd kg))) g
  | _ => []
  end = [(CS s1, 5%nat); (CS s_nil, 2%nat); (CS s_true, 1%nat)] /\
  render_inj_onb O0 [sa] (rows f_mix) = false.
Proof. vm_compute. split; reflexivity. Qed.

Example f_mix_count :
  op_group_agg O0 f_mix (GOne sa) GCount [sv] =
  Ok [(s_groupkey, (s_groupkey, [CI KInt 1; CS s1; CI KInt64 1; CNil; CB true]));
      (sv, (sv, [CI KInt 2; CI KInt 2; CI KInt 1; CI KInt 2; CI KInt 1]))].
Proof. vm_compute. reflexivity. Qed.

(* Sum over every integer/float width; "7" (text), true and nil are skipped; with no
   column requested Sum takes all columns but the key *)
Example f_mix_sum :
  op_group_agg O0 f_mix (GOne sa) GSum [] =
  Ok [(s_groupkey, (s_groupkey, [CI KInt 1; CS s1; CI KInt64 1; CNil; CB true]));
      (sv, (sv, [CF KF64 (fl_of_Z 13); CF KF64 (fl_of_Z 5); CF KF64 (fl_of_Z 1);
                 CF KF64 (fl_of_Z 4); CF KF64 (FFin 0)]))].
Proof. vm_compute. reflexivity. Qed.

(* Mean divides by the number of numeric cells (5/1, 4/1), 0 for the group without any *)
Example f_mix_mean :
  op_group_agg O0 f_mix (GOne sa) GMean [sv] =
  Ok [(s_groupkey, (s_groupkey, [CI KInt 1; CS s1; CI KInt64 1; CNil; CB true]));
      (sv, (sv, [CF KF64 (FFin (Z.shiftl 13 1073)); CF KF64 (fl_of_Z 5); CF KF64 (fl_of_Z 1);
                 CF KF64 (fl_of_Z 4); CF KF64 (FFin 0)]))].
Proof. vm_compute. reflexivity. Qed.

(* missing key column, duplicate names, a column called "GroupKey": errors *)
Example f_mix_errors :
  op_groupby O0 f_mix (GOne sb) = Err /\
  op_group_agg O0 f_mix (GOne sb) GSum [sv] = Err /\
  op_group_agg O0 f_mix (GList [sa; sb]) GCount [] = Err /\
  op_group_agg O0 f_mix (GOne sa) GSum [sv; sv] = Err /\
  op_group_agg O0 f_mix (GOne sa) GSum [s_groupkey] = Err.
Proof. vm_compute. repeat split. Qed.

(* conservation on the example: 13 + 5 + 1 + 4 + 0 = 23 *)
Example f_mix_conservation :
  all_finite (group_nums (rows f_mix) sv) = true /\
  exact_sum (group_nums (rows f_mix) sv) = Z.shiftl 23 1074 /\
  map (fun kg => exact_sum (group_nums (snd kg) sv)) (grp_of (fun r => rget r sa) (rows f_mix))
  = map (fun n => Z.shiftl n 1074) [13; 5; 1; 4; 0].
Proof. vm_compute. repeat split. Qed.

(* the premises of groupby_list_iff are satisfiable: a frame where the key list works *)
Definition f_ok : frame :=
  [(sa, (sa, [CS sx; CS sz; CS sx; CS sz])); (sb, (sb, [CI KInt 1; CI KInt 1; CI KInt 1; CI KInt 2]))].
Example groupby_list_iff_hyps :
  rect f_ok = true /\ render_inj_onb O0 [sa; sb] (rows f_ok) = true /\
  no_negzero_keys [sa; sb] (rows f_ok) = true /\
  match op_groupby O0 f_ok (GList [sa; sb]) with
  | Ok g => map (fun kg => (fst kg, length (snd kg))) g
  | _ => []
  end = [(CS [120%N; 124%N; 49%N], 2%nat); (CS [122%N; 124%N; 49%N], 1%nat); (CS [122%N; 124%N; 50%N], 1%nat)].
Proof. vm_compute. repeat split. Qed.

(* ================================================================== *)
Print Assumptions cell_eqb_sym.
Print Assumptions cell_eqb_trans.
Print Assumptions groups_keys_distinct.
Print Assumptions groups_closed_form.
Print Assumptions groups_rows_spec.
Print Assumptions groups_cover.
Print Assumptions groups_unique.
Print Assumptions groups_same_iff.
Print Assumptions groups_key_order.
Print Assumptions groups_nonempty.
Print Assumptions groupby_one_err.
Print Assumptions groupby_one_spec.
Print Assumptions group_agg_err.
Print Assumptions groupby_list_text.
Print Assumptions groupby_list_partial.
Print Assumptions groupby_list_iff.
Print Assumptions groupby_list_refuted.
Print Assumptions group_nums_spec.
Print Assumptions group_value_mean_some.
Print Assumptions group_sum_conservation.
Print Assumptions group_nums_conservation.
Print Assumptions group_count_conservation.
Print Assumptions group_agg_shape.
Print Assumptions group_count_one.
