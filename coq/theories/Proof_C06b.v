(* Proof_C06b.v - SortValues: the specification DETERMINES the sort columns.

   The real library sorts with an unstable sort, the model with a stable insertion sort, so
   the correspondence check (Corr.check_sort) does not compare the two results.  It checks
   the real result against sort_spec (permutation of whole rows + neighbour order) and
   compares only the SORT COLUMNS of the real result with the model's (sort_keys_same).
   This file proves that the second comparison is sound: any two outputs that satisfy the
   specification have the same sort columns, whatever the order chosen among ties.

   Layout
     1. abstract determinacy: two sorted permutations of one multiset agree, position by
        position, up to the equivalence of the strict weak order  (sorted_perm_eqv)
     2. rows: the comparison of two rows as a three-way comparison on row maps; rows that
        are tied have sort cells that are equal as compared (keq); on columns that hold
        no two representations of one value (canonical_keys) they are the same cells
     3. sort_determinate, sort_keys_determined_by_spec
     4. sufficient conditions for canonical_keys, examples, the premise is needed *)
From GF Require Import Ops Lemmas Corr Proof_C06.
From Coq Require Import Lia Permutation Sorted.

Arguments N.eqb : simpl never.

(* ------------------------------------------------------------------------- *)
(* 1. abstract determinacy                                                    *)
(* ------------------------------------------------------------------------- *)

Section Determinacy.
  Variable A : Type.
  Variable lt : A -> A -> bool.
  Hypothesis lt_irrefl : forall x, lt x x = false.
  Hypothesis lt_negtrans : forall x y z, lt x y = false -> lt y z = false -> lt x z = false.
  (* transitivity of lt is not needed for this result *)

  (* neither is less than the other *)
  Definition eqv (a b : A) : Prop := lt a b = false /\ lt b a = false.
  (* a may stand before b *)
  Definition ngt (a b : A) : Prop := lt b a = false.
  Definition sorted (l : list A) : Prop := StronglySorted ngt l.

  Lemma eqv_refl a : eqv a a.
  Proof. split; apply lt_irrefl. Qed.
  Lemma eqv_sym a b : eqv a b -> eqv b a.
  Proof. intros [H1 H2]. now split. Qed.
  Lemma eqv_trans a b c : eqv a b -> eqv b c -> eqv a c.
  Proof. intros [H1 H2] [H3 H4]. split; eapply lt_negtrans; eauto. Qed.

  Lemma Forall2_eqv_refl l : Forall2 eqv l l.
  Proof. induction l as [|x l IH]; constructor; auto. apply eqv_refl. Qed.
  Lemma Forall2_eqv_trans l1 : forall l2 l3, Forall2 eqv l1 l2 -> Forall2 eqv l2 l3 -> Forall2 eqv l1 l3.
  Proof.
    induction l1 as [|x l1 IH]; intros l2 l3 H1 H2.
    - inversion H1; subst. inversion H2; subst. constructor.
    - inversion H1 as [|x' y l1' l2' Exy T1]; subst. inversion H2 as [|y' z l2'' l3' Eyz T2]; subst.
      constructor; [eapply eqv_trans; eauto | eapply IH; eauto].
  Qed.

  (* the head of a sorted list is a minimum *)
  Lemma sorted_head_min x t z : sorted (x :: t) -> In z (x :: t) -> lt z x = false.
  Proof.
    intros S Hz. inversion S as [|x' t' St Hx]; subst. destruct Hz as [<-|Hz].
    - apply lt_irrefl.
    - rewrite Forall_forall in Hx. now apply Hx.
  Qed.

  Lemma heads_eqv x t1 y t2 : Permutation (x :: t1) (y :: t2) -> sorted (x :: t1) -> sorted (y :: t2) -> eqv x y.
  Proof.
    intros P S1 S2. split.
    - apply (sorted_head_min y t2 x S2). eapply Permutation_in; [exact P | now left].
    - apply (sorted_head_min x t1 y S1). eapply Permutation_in; [apply Permutation_sym, P | now left].
  Qed.

  Lemma sorted_tail x t : sorted (x :: t) -> sorted t.
  Proof. intros S. now inversion S. Qed.

  (* removing an element keeps a list sorted *)
  Lemma sorted_remove_mid a x b : sorted (a ++ x :: b) -> sorted (a ++ b).
  Proof.
    induction a as [|a0 a IH]; cbn [app]; intros S.
    - now apply sorted_tail in S.
    - inversion S as [|a0' t' St Ha]; subst. constructor; [now apply IH|].
      rewrite Forall_forall in *. intros z Hz. apply Ha. apply in_app_iff in Hz. apply in_app_iff.
      destruct Hz as [Hz|Hz]; [now left | right; now right].
  Qed.

  (* the elements standing before x are not above x *)
  Lemma sorted_before a x b : sorted (a ++ x :: b) -> Forall (fun z => lt x z = false) a.
  Proof.
    induction a as [|a0 a IH]; cbn [app]; intros S; constructor.
    - inversion S as [|a0' t' St Ha]; subst. rewrite Forall_forall in Ha. apply Ha.
      apply in_app_iff. right. now left.
    - apply IH. now apply sorted_tail in S.
  Qed.

  (* a run of equivalent elements: moving its first element to its end changes no class *)
  Lemma shift_eqv x b a : forall y, eqv y x -> Forall (fun z => eqv z x) a ->
    Forall2 eqv (y :: a ++ b) (a ++ x :: b).
  Proof.
    induction a as [|a0 a IH]; cbn [app]; intros y Ey Ha.
    - constructor; [exact Ey | apply Forall2_eqv_refl].
    - inversion Ha as [|a0' a' E0 Ha']; subst. constructor.
      + eapply eqv_trans; [exact Ey | now apply eqv_sym].
      + now apply IH.
  Qed.

  (* two sorted arrangements of the same elements agree position by position up to ties *)
  Theorem sorted_perm_eqv : forall l1 l2, Permutation l1 l2 -> sorted l1 -> sorted l2 -> Forall2 eqv l1 l2.
  Proof.
    induction l1 as [|x t1 IH]; intros l2 P S1 S2.
    - apply Permutation_nil in P. subst. constructor.
    - destruct l2 as [|y t2]; [apply Permutation_sym, Permutation_nil in P; discriminate|].
      pose proof (heads_eqv x t1 y t2 P S1 S2) as E.
      assert (Hin : In x (y :: t2)) by (eapply Permutation_in; [exact P | now left]).
      destruct Hin as [->|Hin].
      + constructor; [apply eqv_refl|]. apply IH.
        * eapply Permutation_cons_inv; eauto.
        * now apply sorted_tail in S1.
        * now apply sorted_tail in S2.
      + apply in_split in Hin. destruct Hin as [a [b ->]].
        assert (P' : Permutation t1 (y :: a ++ b)).
        { apply (Permutation_cons_app_inv (y :: a) b (a := x)). exact P. }
        assert (S2' : sorted (y :: a ++ b)) by (apply (sorted_remove_mid (y :: a) x b); exact S2).
        pose proof (IH _ P' (sorted_tail _ _ S1) S2') as F.
        assert (Ha : Forall (fun z => eqv z x) a).
        { pose proof (sorted_before a x b (sorted_tail _ _ S2)) as Hb.
          inversion S2 as [|y' t' St Hy]; subst.
          rewrite Forall_forall in *. intros z Hz. split.
          - apply (lt_negtrans z y x); [|apply E]. apply Hy. apply in_app_iff. now left.
          - now apply Hb. }
        constructor; [exact E|].
        eapply Forall2_eqv_trans; [exact F|]. apply shift_eqv; [now apply eqv_sym | exact Ha].
  Qed.

  Lemma Forall2_length_eq l1 l2 : Forall2 eqv l1 l2 -> length l1 = length l2.
  Proof. intros H. induction H; cbn; auto. Qed.

  Corollary sorted_perm_eqv_nth l1 l2 d : Permutation l1 l2 -> sorted l1 -> sorted l2 ->
    forall i, eqv (nth i l1 d) (nth i l2 d).
  Proof.
    intros P S1 S2. pose proof (sorted_perm_eqv l1 l2 P S1 S2) as F. clear P S1 S2.
    induction F as [|x y l1 l2 E F IH]; intros [|i]; cbn [nth]; try apply eqv_refl; auto.
  Qed.
End Determinacy.

Arguments eqv {A} lt a b.
Arguments ngt {A} lt a b.
Arguments sorted {A} lt l.


(* ------------------------------------------------------------------------- *)
(* 2. rows                                                                    *)
(* ------------------------------------------------------------------------- *)

(* ---- the comparison of two row maps (the rows may come from different frames) ---- *)
Fixpoint rcmp (O : oracles) (asc : bool) (by_ : list str) (r1 r2 : rowmap) : comparison :=
  match by_ with
  | [] => Eq
  | k :: rest => lexc (fun a b => cmp_cell O asc (rget a k) (rget b k)) (rcmp O asc rest) r1 r2
  end.

Lemma rcmp_ok O asc by_ : cmp_ok (rcmp O asc by_).
Proof.
  induction by_ as [|k rest IH].
  - apply cmp_ok_const.
  - change (cmp_ok (lexc (fun a b => cmp_cell O asc (rget a k) (rget b k)) (rcmp O asc rest))).
    apply cmp_ok_lex; auto.
    apply (cmp_ok_pull (fun r => rget r k)), cmp_cell_ok.
Qed.

(* the cell of row i under name k *)
Lemma rget_row_at f k i : rget (row_at f i) k = cell_at f k i.
Proof.
  unfold rget, cell_at, row_at. induction f as [|[k' c] t IH]; cbn [map fget fst snd]; auto.
  destruct (str_eqb k k'); auto. apply nth_nth_opt.
Qed.

Lemma row_cmp_rcmp O f by_ asc i j : row_cmp O f by_ asc i j = rcmp O asc by_ (row_at f i) (row_at f j).
Proof.
  induction by_ as [|k rest IH]; cbn [row_cmp rcmp]; auto.
  unfold lexc, col_cmp. now rewrite !rget_row_at, IH.
Qed.

(* tied rows are tied in every sort column *)
Lemma rcmp_Eq_cols O asc by_ r1 r2 : rcmp O asc by_ r1 r2 = Eq ->
  forall k, In k by_ -> cmp_cell O asc (rget r1 k) (rget r2 k) = Eq.
Proof.
  induction by_ as [|k0 rest IH]; intros H k Hk; [destruct Hk|].
  cbn [rcmp] in H. unfold lexc in H.
  destruct (cmp_cell O asc (rget r1 k0) (rget r2 k0)) eqn:E; try discriminate.
  destruct Hk as [<-|Hk]; auto.
Qed.

Lemma ltc_eqv_Eq {A} (c : A -> A -> comparison) : cmp_ok c ->
  forall a b, eqv (ltc c) a b <-> c a b = Eq.
Proof.
  intros H a b. unfold eqv, ltc. rewrite (c_anti c H a b). destruct (c a b); cbn [CompOpp]; split;
    try (intros [H1 H2]; discriminate); try discriminate; auto.
Qed.

(* ---- equal as compared: the tie condition of DataFrameSorter.Less in one column ---- *)
Definition keq (O : oracles) (a b : cell) : bool :=
  match a, b with
  | CNil, CNil => true
  | CNil, _ => false
  | _, CNil => false
  | _, _ =>
    match to_float O a, to_float O b with
    | Some x, Some y => fl_eq x y
    | _, _ => str_eqb (render O a) (render O b)
    end
  end.

Lemma keq_nn O a b : is_nil a = false -> is_nil b = false ->
  keq O a b = match to_float O a, to_float O b with
              | Some x, Some y => fl_eq x y
              | _, _ => str_eqb (render O a) (render O b)
              end.
Proof. intros Na Nb. destruct a; try discriminate; destruct b; try discriminate; reflexivity. Qed.

Lemma is_nil_eq c : is_nil c = true -> c = CNil.
Proof. destruct c; try discriminate; reflexivity. Qed.

Lemma base_cmp_Eq_keq O a b : is_nil a = false -> is_nil b = false -> same_kind O a b ->
  base_cmp O a b = Eq -> keq O a b = true.
Proof.
  intros Na Nb K H. rewrite (keq_nn O a b Na Nb).
  unfold base_cmp, lexc, cell_rank, cell_mant, cell_text in H.
  destruct K as [[Ka Kb]|[Ka Kb]].
  - unfold num_cell in Ka, Kb. rewrite Na in Ka. rewrite Nb in Kb. cbn [orb] in Ka, Kb.
    destruct (to_float O a) as [x|] eqn:Ea; [|discriminate].
    destruct (to_float O b) as [y|] eqn:Eb; [|discriminate].
    apply negb_true_iff in Ka. apply negb_true_iff in Kb.
    pose proof (fl_cmp_facts x y Ka Kb) as F. unfold fl_cmp in F.
    destruct (fl_rank x ?= fl_rank y); try discriminate.
    destruct (fl_mant x ?= fl_mant y); try discriminate.
    unfold cmp_facts in F. tauto.
  - unfold text_cell in Ka, Kb.
    destruct (to_float O a) eqn:Ea; [discriminate|]. destruct (to_float O b) eqn:Eb; [discriminate|].
    change (0 ?= 0) with Eq in H. cbv iota in H. apply str_compare_eq in H. rewrite H. apply str_eqb_refl.
Qed.

Lemma cmp_cell_Eq_keq O asc a b : same_kind O a b -> cmp_cell O asc a b = Eq -> keq O a b = true.
Proof.
  intros K H. unfold cmp_cell, lexc, nilz in H.
  destruct (is_nil a) eqn:Na; destruct (is_nil b) eqn:Nb.
  - apply is_nil_eq in Na. apply is_nil_eq in Nb. subst. reflexivity.
  - discriminate.
  - discriminate.
  - change (0 ?= 0) with Eq in H. cbv iota in H. apply base_cmp_Eq_keq; auto.
    destruct asc; auto. rewrite (c_anti _ (base_cmp_ok O) b a), H. reflexivity.
Qed.

Lemma one_kind_in O d a b : col_one_kind O d = true ->
  (a = CNil \/ In a d) -> (b = CNil \/ In b d) -> same_kind O a b.
Proof.
  intros H Ha Hb. unfold col_one_kind in H. apply orb_prop in H.
  assert (P : forall (p : cell -> bool), p CNil = true -> forallb p d = true ->
              forall x, (x = CNil \/ In x d) -> p x = true).
  { intros p Hn Hp x [->|Hx]; auto. rewrite forallb_forall in Hp. now apply Hp. }
  destruct H as [H|H]; [left|right]; split; apply (P _ eq_refl H); auto.
Qed.

(* ---- no two representations of one value in a sort column ---- *)
Definition canon_col (O : oracles) (d : list cell) : bool :=
  forallb (fun a => forallb (fun b => implb (keq O a b) (cell_same a b)) d) d.
Definition canonical_keys (O : oracles) (f : frame) (by_ : list str) : bool :=
  forallb (fun k => match fget f k with Some c => canon_col O (cdata c) | None => true end) by_.

Lemma keq_nil_l O b : keq O CNil b = true -> b = CNil.
Proof. destruct b; try discriminate; reflexivity. Qed.
Lemma keq_nil_r O a : keq O a CNil = true -> a = CNil.
Proof. destruct a; try discriminate; reflexivity. Qed.

Lemma canon_col_spec O d : canon_col O d = true ->
  forall a b, (a = CNil \/ In a d) -> (b = CNil \/ In b d) -> keq O a b = true -> cell_same a b = true.
Proof.
  intros H a b Ha Hb E. unfold canon_col in H. rewrite forallb_forall in H.
  destruct Ha as [->|Ha]; [apply keq_nil_l in E; now subst|].
  destruct Hb as [->|Hb]; [apply keq_nil_r in E; now subst|].
  specialize (H a Ha). rewrite forallb_forall in H. specialize (H b Hb). now rewrite E in H.
Qed.

(* two positions of one frame that Less does not separate: equal as compared in every sort column *)
Theorem eqv_rows_eq_as_compared O f by_ asc i j : sort_cols_ok O f by_ ->
  less O f by_ asc i j = false -> less O f by_ asc j i = false ->
  forall k, In k by_ -> keq O (cell_at f k i) (cell_at f k j) = true.
Proof.
  intros H L1 L2 k Hk. rewrite (less_is_row_cmp O f by_ asc H) in L1, L2.
  assert (E : row_cmp O f by_ asc i j = Eq).
  { apply (ltc_eqv_Eq _ (row_cmp_ok O f by_ asc)). now split. }
  rewrite row_cmp_rcmp in E. pose proof (rcmp_Eq_cols O asc by_ _ _ E k Hk) as C.
  rewrite !rget_row_at in C. destruct (H k Hk) as [c [Ec Hc]].
  apply (cmp_cell_Eq_keq O asc); auto. eapply one_kind_same; eauto.
Qed.

(* ... and, on canonical columns, the same cells *)
Theorem eqv_rows_same_keys O f by_ asc i j : sort_cols_ok O f by_ -> canonical_keys O f by_ = true ->
  less O f by_ asc i j = false -> less O f by_ asc j i = false ->
  forall k, In k by_ -> cell_same (cell_at f k i) (cell_at f k j) = true.
Proof.
  intros H Hc L1 L2 k Hk. pose proof (eqv_rows_eq_as_compared O f by_ asc i j H L1 L2 k Hk) as E.
  unfold canonical_keys in Hc. rewrite forallb_forall in Hc. specialize (Hc k Hk).
  destruct (H k Hk) as [c [Ec _]]. rewrite Ec in Hc.
  apply (canon_col_spec O (cdata c) Hc); auto.
  - destruct (cell_at_cases f k i) as [->|[c' [E' Hin]]]; auto. rewrite Ec in E'. inversion E'; subst. auto.
  - destruct (cell_at_cases f k j) as [->|[c' [E' Hin]]]; auto. rewrite Ec in E'. inversion E'; subst. auto.
Qed.

(* ------------------------------------------------------------------------- *)
(* 3. the specification determines the sort columns                           *)
(* ------------------------------------------------------------------------- *)

(* ---- rows of any frame are row_at's of in-range positions ---- *)
Lemma all_some_row_inv (l : frame) i r :
  all_some (map (fun kc => option_map (pair (fst kc)) (nth_opt (cdata (snd kc)) i)) l) = Some r ->
  r = map (fun kc => (fst kc, nth i (cdata (snd kc)) CNil)) l
  /\ forall kc, In kc l -> (i < length (cdata (snd kc)))%nat.
Proof.
  revert r. induction l as [|kc l IH]; intros r H; cbn [map all_some] in H.
  - inversion H. split; auto. intros kc [].
  - destruct (nth_opt (cdata (snd kc)) i) as [v|] eqn:E; cbn [option_map] in H; [|discriminate].
    destruct (all_some (map (fun kc => option_map (pair (fst kc)) (nth_opt (cdata (snd kc)) i)) l)) as [r'|] eqn:E2;
      [|discriminate].
    inversion H; subst r. destruct (IH r' eq_refl) as [-> Hl]. split.
    + cbn [map]. f_equal. f_equal. now rewrite nth_nth_opt, E.
    + intros kc' [<-|Hin]; [eapply nth_opt_some_lt; eauto | auto].
Qed.

Lemma in_rows_inv f r : In r (rows f) ->
  exists i, r = row_at f i /\ forall kc, In kc f -> (i < length (cdata (snd kc)))%nat.
Proof.
  unfold rows. rewrite in_flat_map. intros [i [_ H]].
  destruct (frow f i) as [r'|] eqn:E; [|destruct H]. destruct H as [<-|[]].
  unfold frow in E. destruct (Nat.ltb i (nrows f)); [|discriminate].
  exists i. now apply all_some_row_inv.
Qed.

(* a cell of a row of f lies in the column of f *)
Lemma rows_cell_in f r k c : In r (rows f) -> fget f k = Some c -> In (rget r k) (cdata c).
Proof.
  intros Hr E. destruct (in_rows_inv f r Hr) as [i [-> Hi]].
  rewrite rget_row_at. unfold cell_at. rewrite E.
  destruct (fget_in _ _ _ E) as [k' Hin]. specialize (Hi _ Hin). cbn [snd] in Hi.
  destruct (nth_opt_lt_some _ _ Hi) as [v Ev]. rewrite Ev. eapply nth_opt_in; eauto.
Qed.

Lemma col_cell_at g k c i : fget g k = Some c -> nth i (cdata c) CNil = cell_at g k i.
Proof. intros E. unfold cell_at. rewrite E. apply nth_nth_opt. Qed.

Lemma row_at_in_rows g i : rect g = true -> (i < nrows g)%nat -> In (row_at g i) (rows g).
Proof. intros Hr Hi. rewrite rows_rect by exact Hr. apply in_map. apply in_seq. lia. Qed.

(* every cell of a column of g is a cell of the same column of f, when the rows of g are rows of f *)
Lemma col_incl_rows f g k c c' : rect g = true -> (forall r, In r (rows g) -> In r (rows f)) ->
  fget f k = Some c -> fget g k = Some c' -> forall x, In x (cdata c') -> In x (cdata c).
Proof.
  intros Hr Hsub E E' x Hx. destruct (In_nth _ _ CNil Hx) as [i [Hi <-]].
  rewrite (col_cell_at g k c' i E'), <- rget_row_at.
  apply (rows_cell_in f _ k c); auto. apply Hsub, row_at_in_rows; auto.
  now rewrite <- (rect_fget_len g k c' Hr E').
Qed.

Lemma fget_same_keys {A B} (f : list (str * A)) (g : list (str * B)) k :
  map fst f = map fst g -> is_some (fget f k) = is_some (fget g k).
Proof.
  revert g. induction f as [|[k1 a] f IH]; intros [|[k2 b] g] H; cbn [map fst] in H; try discriminate; auto.
  inversion H; subst. cbn [fget]. destruct (str_eqb k k2); auto.
Qed.

Lemma fget_some_keys (f g : frame) k c : fkeys g = fkeys f -> fget f k = Some c -> exists c', fget g k = Some c'.
Proof.
  intros Hk E. pose proof (fget_same_keys g f k Hk) as H. rewrite E in H. cbn [is_some] in H.
  destruct (fget g k) as [c'|]; [eauto | discriminate].
Qed.

(* the preconditions carry over to any rectangular rearrangement of the rows *)
Lemma sort_cols_ok_rows O f g by_ : rect g = true -> fkeys g = fkeys f ->
  (forall r, In r (rows g) -> In r (rows f)) -> sort_cols_ok O f by_ -> sort_cols_ok O g by_.
Proof.
  intros Hr Hk Hsub H k Hin. destruct (H k Hin) as [c [E Hc]].
  destruct (fget_some_keys f g k c Hk E) as [c' E']. exists c'. split; auto.
  unfold col_one_kind in *. apply orb_prop in Hc. apply orb_true_iff.
  destruct Hc as [Hc|Hc]; [left|right];
    (apply (forallb_incl _ (cdata c)); [apply (col_incl_rows f g k c c'); auto | exact Hc]).
Qed.

Lemma canonical_keys_rows O f g by_ : rect g = true -> fkeys g = fkeys f ->
  (forall r, In r (rows g) -> In r (rows f)) -> sort_cols_ok O f by_ ->
  canonical_keys O f by_ = true -> canonical_keys O g by_ = true.
Proof.
  intros Hr Hk Hsub H Hc. unfold canonical_keys in *. rewrite forallb_forall in *. intros k Hin.
  specialize (Hc k Hin). destruct (H k Hin) as [c [E _]]. rewrite E in Hc.
  destruct (fget g k) as [c'|] eqn:E'; auto.
  unfold canon_col. rewrite forallb_forall. intros a Ha. rewrite forallb_forall. intros b Hb.
  destruct (keq O a b) eqn:Eab; auto. cbn [implb].
  apply (canon_col_spec O (cdata c) Hc); auto; right; eapply (col_incl_rows f g k c c'); eauto.
Qed.

(* ---- the neighbour check says the list of rows is sorted by the row comparison ---- *)
Lemma StronglySorted_map_seq {A} (R : A -> A -> Prop) (h : nat -> A) n : forall s,
  (forall a b, (s <= a)%nat -> (a < b)%nat -> (b < s + n)%nat -> R (h a) (h b)) ->
  StronglySorted R (map h (seq s n)).
Proof.
  induction n as [|n IH]; intros s H; cbn [seq map]; constructor.
  - apply IH. intros a b Ha Hab Hb. apply H; lia.
  - apply Forall_forall. intros x Hx. apply in_map_iff in Hx. destruct Hx as [b [<- Hb]].
    apply in_seq in Hb. apply H; lia.
Qed.

Lemma rows_sorted O g by_ asc : rect g = true -> sort_cols_ok O g by_ ->
  sorted_by (less O g by_ asc) (nrows g - 1) = true ->
  sorted (ltc (rcmp O asc by_)) (rows g).
Proof.
  intros Hr H Hs. rewrite rows_rect by exact Hr. apply StronglySorted_map_seq.
  intros a b _ Hab Hb. unfold ngt.
  unfold ltc. rewrite <- row_cmp_rcmp. fold (ltc (row_cmp O g by_ asc) b a).
  rewrite <- (less_is_row_cmp O g by_ asc H).
  apply (sorted_by_global O g by_ asc (nrows g - 1)); auto. lia.
Qed.

Lemma Forall2_map_same {A B} (R : B -> B -> Prop) (h1 h2 : A -> B) l :
  Forall2 R (map h1 l) (map h2 l) -> forall x, In x l -> R (h1 x) (h2 x).
Proof.
  induction l as [|y l IH]; intros H x Hx; [destruct Hx|]. cbn [map] in H.
  inversion H; subst. destruct Hx as [<-|Hx]; auto.
Qed.

Lemma list_eqb_nth {A} (e : A -> A -> bool) (d : A) l1 : forall l2, length l1 = length l2 ->
  (forall i, (i < length l1)%nat -> e (nth i l1 d) (nth i l2 d) = true) -> list_eqb e l1 l2 = true.
Proof.
  induction l1 as [|x l1 IH]; intros [|y l2] Hl H; cbn [length] in Hl; try discriminate; auto.
  cbn [list_eqb]. assert (H0 : (0 < length (x :: l1))%nat) by (cbn [length]; lia).
  apply H in H0. cbn [nth] in H0. rewrite H0. cbn [andb]. apply IH; [lia|].
  intros i Hi. apply (H (S i)). cbn [length]. lia.
Qed.

Lemma wf_rect f : wf_frame f = true -> rect f = true.
Proof.
  unfold wf_frame. intros H. apply andb_prop in H. destruct H as [H _].
  apply andb_prop in H. now destruct H.
Qed.

(* MAIN THEOREM.  Two frames that both satisfy the specification of SortValues for the same
   input have the same sort columns, cell for cell. *)
Theorem sort_determinate O (f g1 g2 : frame) by_ asc :
  sort_cols_ok O f by_ -> canonical_keys O f by_ = true ->
  fkeys g1 = fkeys f -> fkeys g2 = fkeys f ->
  wf_frame g1 = true -> wf_frame g2 = true ->
  Permutation (rows g1) (rows f) -> Permutation (rows g2) (rows f) ->
  sorted_by (less O g1 by_ asc) (nrows g1 - 1) = true ->
  sorted_by (less O g2 by_ asc) (nrows g2 - 1) = true ->
  sort_keys_same g1 g2 by_ = true.
Proof.
  intros H Hc K1 K2 W1 W2 P1 P2 S1 S2.
  pose proof (wf_rect _ W1) as R1. pose proof (wf_rect _ W2) as R2.
  assert (I1 : forall r, In r (rows g1) -> In r (rows f)) by (intros r; now apply Permutation_in).
  assert (I2 : forall r, In r (rows g2) -> In r (rows f)) by (intros r; now apply Permutation_in).
  pose proof (sort_cols_ok_rows O f g1 by_ R1 K1 I1 H) as H1.
  pose proof (sort_cols_ok_rows O f g2 by_ R2 K2 I2 H) as H2.
  assert (N : nrows g1 = nrows g2).
  { rewrite <- (rows_length g1 R1), <- (rows_length g2 R2).
    rewrite (Permutation_length P1), (Permutation_length P2). reflexivity. }
  pose proof (rcmp_ok O asc by_) as C.
  assert (F : Forall2 (eqv (ltc (rcmp O asc by_))) (rows g1) (rows g2)).
  { apply sorted_perm_eqv.
    - apply (ltc_irrefl _ C).
    - apply (ltc_negtrans _ C).
    - eapply perm_trans; [exact P1 | apply Permutation_sym, P2].
    - now apply rows_sorted.
    - now apply rows_sorted. }
  rewrite (rows_rect g1 R1), (rows_rect g2 R2), <- N in F.
  unfold sort_keys_same. rewrite forallb_forall. intros k Hk.
  destruct (H k Hk) as [c [Ec Hkind]].
  destruct (H1 k Hk) as [c1 [E1 _]]. destruct (H2 k Hk) as [c2 [E2 _]]. rewrite E1, E2.
  pose proof (rect_fget_len g1 k c1 R1 E1) as L1. pose proof (rect_fget_len g2 k c2 R2 E2) as L2.
  apply (list_eqb_nth cell_same CNil); [lia|].
  intros i Hi. rewrite L1 in Hi.
  rewrite (col_cell_at g1 k c1 i E1), (col_cell_at g2 k c2 i E2).
  assert (Hi' : In i (seq 0 (nrows g1))) by (apply in_seq; lia).
  pose proof (Forall2_map_same _ _ _ _ F i Hi') as E.
  apply (ltc_eqv_Eq _ C) in E. pose proof (rcmp_Eq_cols O asc by_ _ _ E k Hk) as Ck.
  assert (A1 : In (rget (row_at g1 i) k) (cdata c)).
  { apply (rows_cell_in f _ k c); auto. apply I1, row_at_in_rows; auto. }
  assert (A2 : In (rget (row_at g2 i) k) (cdata c)).
  { apply (rows_cell_in f _ k c); auto. apply I2, row_at_in_rows; auto. lia. }
  rewrite <- !rget_row_at.
  unfold canonical_keys in Hc. rewrite forallb_forall in Hc. specialize (Hc k Hk). rewrite Ec in Hc.
  apply (canon_col_spec O (cdata c) Hc); auto.
  apply (cmp_cell_Eq_keq O asc); auto. apply (one_kind_in O (cdata c)); auto.
Qed.

(* ---- the boolean permutation check of Corr.v is a permutation ---- *)
Lemma ikind_eqb_true a b : ikind_eqb a b = true -> a = b.
Proof. destruct a, b; cbn; intro H; try discriminate; reflexivity. Qed.
Lemma fkind_eqb_true a b : fkind_eqb a b = true -> a = b.
Proof. destruct a, b; cbn; intro H; try discriminate; reflexivity. Qed.
Lemma zlist_eqb_true a : forall b, zlist_eqb a b = true -> a = b.
Proof.
  induction a as [|x a IH]; intros [|y b]; cbn [zlist_eqb]; intro H; try discriminate; auto.
  apply andb_prop in H. destruct H as [H1 H2]. apply Z.eqb_eq in H1. apply IH in H2. now subst.
Qed.
Lemma fl_same_true x y : fl_same x y = true -> x = y.
Proof.
  destruct x as [| | | |m], y as [| | | |n]; cbn [fl_same]; intro H; try discriminate; try reflexivity.
  apply Z.eqb_eq in H. now subst.
Qed.
Lemma cell_same_true a b : cell_same a b = true -> a = b.
Proof.
  destruct a as [|k x|k x|s|u|t], b as [|k' y|k' y|s'|u'|t']; cbn [cell_same]; intros H;
    try discriminate; try reflexivity.
  - apply andb_prop in H. destruct H as [A B]. apply ikind_eqb_true in A. apply Z.eqb_eq in B. now subst.
  - apply andb_prop in H. destruct H as [A B]. apply fkind_eqb_true in A. apply fl_same_true in B. now subst.
  - apply str_eqb_eq in H. now subst.
  - apply Bool.eqb_prop in H. now subst.
  - apply zlist_eqb_true in H. now subst.
Qed.
Lemma list_eqb_true {A} (e : A -> A -> bool) : (forall x y, e x y = true -> x = y) ->
  forall a b, list_eqb e a b = true -> a = b.
Proof.
  intros He. induction a as [|x a IH]; intros [|y b]; cbn [list_eqb]; intro H; try discriminate; auto.
  apply andb_prop in H. destruct H as [H1 H2]. apply He in H1. apply IH in H2. now subst.
Qed.
Lemma row_same_true a b : row_same a b = true -> a = b.
Proof.
  apply list_eqb_true. intros [k v] [k' v']. cbn [fst snd]. intro H.
  apply andb_prop in H. destruct H as [H1 H2]. apply str_eqb_eq in H1. apply cell_same_true in H2. now subst.
Qed.

Lemma remove_row_perm r : forall b b', remove_row r b = Some b' -> Permutation b (r :: b').
Proof.
  induction b as [|x b IH]; intros b' H; cbn [remove_row] in H; [discriminate|].
  destruct (row_same r x) eqn:E.
  - apply row_same_true in E. inversion H; subst. apply Permutation_refl.
  - destruct (remove_row r b) as [t'|] eqn:E2; [|discriminate]. inversion H; subst.
    eapply perm_trans; [apply perm_skip, (IH t' eq_refl) | apply perm_swap].
Qed.

Lemma sub_multiset_perm a : forall b, sub_multiset a b = true -> exists c, Permutation b (a ++ c).
Proof.
  induction a as [|r a IH]; intros b H.
  - exists b. apply Permutation_refl.
  - cbn [sub_multiset] in H. destruct (remove_row r b) as [b'|] eqn:E; [|discriminate].
    destruct (IH b' H) as [c Pc]. exists c. cbn [app].
    eapply perm_trans; [apply (remove_row_perm r b b' E) | now apply perm_skip].
Qed.

Theorem perm_rows_perm a b : perm_rows a b = true -> Permutation a b.
Proof.
  unfold perm_rows. intros H. apply andb_prop in H. destruct H as [Hl Hs]. apply Nat.eqb_eq in Hl.
  destruct (sub_multiset_perm a b Hs) as [c Pc].
  pose proof (Permutation_length Pc) as L. rewrite app_length in L.
  destruct c as [|x c]; [|cbn [length] in L; lia].
  rewrite app_nil_r in Pc. now apply Permutation_sym.
Qed.

Lemma str_list_eqb_true (a b : list str) : list_eqb str_eqb a b = true -> a = b.
Proof. apply list_eqb_true. intros x y. apply str_eqb_eq. Qed.

(* what sort_spec says, in terms of Permutation *)
Lemma sort_spec_elim O f g by_ asc : sort_spec O f g by_ asc = true ->
  fkeys g = fkeys f /\ wf_frame g = true /\ Permutation (rows g) (rows f)
  /\ sorted_by (less O g by_ asc) (nrows g - 1) = true.
Proof.
  unfold sort_spec. intros H.
  apply andb_prop in H. destruct H as [H Hs]. apply andb_prop in H. destruct H as [H Hp].
  apply andb_prop in H. destruct H as [Hk Hw].
  apply str_list_eqb_true in Hk. apply perm_rows_perm in Hp. auto.
Qed.

(* COROLLARY.  Any output that satisfies the specification has the sort columns of the model's
   output: a difference reported by sort_keys_same is a violation of the specification, never an
   artefact of the order chosen among ties. *)
Theorem sort_keys_determined_by_spec O f g m by_ asc :
  wf_frame f = true -> sort_cols_ok O f by_ -> canonical_keys O f by_ = true ->
  sort_spec O f g by_ asc = true -> op_sort O f by_ asc = Ok m ->
  sort_keys_same g m by_ = true.
Proof.
  intros W H Hc Hs Hm.
  destruct (sort_spec_elim O f g by_ asc Hs) as [Kg [Wg [Pg Sg]]].
  destruct (sort_model_spec O f by_ asc m W H Hm) as [Km [Wm [_ [Pm [Sm _]]]]].
  apply (sort_determinate O f g m by_ asc); auto.
Qed.

(* the same conclusions, cell by cell *)
Lemma sort_keys_same_cells g m by_ : sort_keys_same g m by_ = true ->
  forall k i, In k by_ -> cell_at g k i = cell_at m k i.
Proof.
  unfold sort_keys_same. rewrite forallb_forall. intros H k i Hk. specialize (H k Hk). unfold cell_at.
  destruct (fget g k) as [a|]; destruct (fget m k) as [b|]; try discriminate; auto.
  apply (list_eqb_true cell_same cell_same_true) in H. now rewrite H.
Qed.

Corollary sort_determinate_cells O (f g1 g2 : frame) by_ asc :
  sort_cols_ok O f by_ -> canonical_keys O f by_ = true ->
  fkeys g1 = fkeys f -> fkeys g2 = fkeys f ->
  wf_frame g1 = true -> wf_frame g2 = true ->
  Permutation (rows g1) (rows f) -> Permutation (rows g2) (rows f) ->
  sorted_by (less O g1 by_ asc) (nrows g1 - 1) = true ->
  sorted_by (less O g2 by_ asc) (nrows g2 - 1) = true ->
  forall k i, In k by_ -> cell_at g1 k i = cell_at g2 k i.
Proof.
  intros H Hc K1 K2 W1 W2 P1 P2 S1 S2. apply sort_keys_same_cells.
  now apply (sort_determinate O f g1 g2 by_ asc).
Qed.

(* the key of a row position: its cells in the sort columns *)
Definition sort_key (f : frame) (by_ : list str) (i : nat) : list cell := map (fun k => cell_at f k i) by_.

Lemma list_eqb_map {A B} (e : B -> B -> bool) (h1 h2 : A -> B) l :
  (forall x, In x l -> e (h1 x) (h2 x) = true) -> list_eqb e (map h1 l) (map h2 l) = true.
Proof.
  induction l as [|x l IH]; intros H; cbn [map list_eqb]; auto.
  rewrite (H x (or_introl eq_refl)). cbn [andb]. apply IH. intros y Hy. apply H. now right.
Qed.

(* tied positions of one frame have the same key *)
Corollary eqv_rows_same_sort_key O f by_ asc i j : sort_cols_ok O f by_ -> canonical_keys O f by_ = true ->
  less O f by_ asc i j = false -> less O f by_ asc j i = false ->
  cells_same (sort_key f by_ i) (sort_key f by_ j) = true.
Proof.
  intros H Hc L1 L2. apply list_eqb_map. intros k Hk.
  now apply (eqv_rows_same_keys O f by_ asc i j).
Qed.

(* ------------------------------------------------------------------------- *)
(* 4. when is a column canonical; examples; the premise is needed             *)
(* ------------------------------------------------------------------------- *)

(* canonical_keys asks, literally, that no sort column holds two cells that compare equal and
   are not the same cell.  Three usual shapes of column that qualify: *)

(* integers of one kind, below 2^53 in magnitude (float64 conversion is exact), nil allowed *)
Definition int_col (k : ikind) (d : list cell) : bool :=
  forallb (fun c => match c with
                    | CNil => true
                    | CI k' z => ikind_eqb k k' && (Z.abs z <? p53)
                    | _ => false end) d.
(* floats of one kind without negative zero (NaN excluded by sort_cols_ok anyway), nil allowed *)
Definition float_col (k : fkind) (d : list cell) : bool :=
  forallb (fun c => match c with
                    | CNil => true
                    | CF k' x => fkind_eqb k k' && negb (fl_same x FNegZero)
                    | _ => false end) d.
(* strings that ParseFloat rejects, nil allowed *)
Definition text_col (O : oracles) (d : list cell) : bool :=
  forallb (fun c => match c with
                    | CNil => true
                    | CS s => negb (is_some (pf O s))
                    | _ => false end) d.

Lemma canon_col_intro O d (p : cell -> bool) : forallb p d = true ->
  (forall a b, p a = true -> p b = true -> keq O a b = true -> cell_same a b = true) ->
  canon_col O d = true.
Proof.
  intros Hp H. unfold canon_col. rewrite forallb_forall in *. intros a Ha.
  rewrite forallb_forall. intros b Hb. destruct (keq O a b) eqn:E; auto. cbn [implb].
  apply H; auto.
Qed.

Lemma shiftl_1074_inj z z' : Z.shiftl z 1074 = Z.shiftl z' 1074 -> z = z'.
Proof.
  rewrite !Z.shiftl_mul_pow2 by lia. intros H.
  apply Z.mul_cancel_r in H; auto. apply Z.pow_nonzero; lia.
Qed.

Lemma ikind_eqb_refl' k : ikind_eqb k k = true.
Proof. now destruct k. Qed.
Lemma fkind_eqb_refl' k : fkind_eqb k k = true.
Proof. now destruct k. Qed.

Theorem int_col_canonical O k d : int_col k d = true -> canon_col O d = true.
Proof.
  intros H. apply (canon_col_intro O d _ H). clear H.
  intros [|k1 z1|k1 x1|s1|b1|t1] [|k2 z2|k2 x2|s2|b2|t2] Ha Hb E; try discriminate; try reflexivity.
  apply andb_prop in Ha. destruct Ha as [A1 A2]. apply andb_prop in Hb. destruct Hb as [B1 B2].
  apply ikind_eqb_true in A1. apply ikind_eqb_true in B1. subst k1 k2.
  cbn [keq to_float] in E. unfold fl_of_Z in E. rewrite A2, B2 in E. cbn [fl_eq] in E.
  apply Z.eqb_eq, shiftl_1074_inj in E. subst z2.
  cbn [cell_same]. now rewrite ikind_eqb_refl', Z.eqb_refl.
Qed.

Theorem float_col_canonical O k d : float_col k d = true -> canon_col O d = true.
Proof.
  intros H. apply (canon_col_intro O d _ H). clear H.
  intros [|k1 z1|k1 x|s1|b1|t1] [|k2 z2|k2 y|s2|b2|t2] Ha Hb E; try discriminate; try reflexivity.
  apply andb_prop in Ha. destruct Ha as [A1 A2]. apply andb_prop in Hb. destruct Hb as [B1 B2].
  apply fkind_eqb_true in A1. apply fkind_eqb_true in B1. subst k1 k2.
  cbn [keq to_float] in E. cbn [cell_same]. rewrite fkind_eqb_refl'. cbn [andb].
  destruct x as [| | | |m], y as [| | | |n]; try discriminate; try reflexivity.
  cbn [fl_eq] in E. exact E.
Qed.

Theorem text_col_canonical O d : text_col O d = true -> canon_col O d = true.
Proof.
  intros H. apply (canon_col_intro O d _ H). clear H.
  intros [|k1 z1|k1 x1|s|b1|t1] [|k2 z2|k2 x2|t|b2|t2] Ha Hb E; try discriminate; try reflexivity.
  cbn [keq to_float render] in E. cbn [cell_same].
  destruct (pf O s); [discriminate|]. exact E.
Qed.

(* ---- example: ties, two valid outputs that differ, same sort column ---- *)
(*    a   b
   0  1   "x"
   1  1   "y"
   2  0   "z"     sorted by a: row 2 first, then rows 0 and 1 in either order *)
Definition ft : frame :=
  [ (ka, (ka, [CI KInt 1; CI KInt 1; CI KInt 0]));
    (kb, (kb, [sx 120; sx 121; sx 122])) ].
Definition gt1 : frame := take_rows ft [2; 0; 1]%nat.
Definition gt2 : frame := take_rows ft [2; 1; 0]%nat.

Example ties_two_outputs :
  wf_frame ft = true /\ sort_cols_okb O0 ft [ka] = true /\ canonical_keys O0 ft [ka] = true
  /\ sort_spec O0 ft gt1 [ka] true = true /\ sort_spec O0 ft gt2 [ka] true = true
  /\ frame_same gt1 gt2 = false                      (* the outputs differ (column b) ... *)
  /\ sort_keys_same gt1 gt2 [ka] = true              (* ... the sort column does not *)
  /\ op_sort O0 ft [ka] true = Ok gt2                (* the model returns the second one: its insertion
                                                        sort places a row AFTER the rows it ties with and
                                                        inserts from the last row, so ties come out in
                                                        reverse input order - immaterial here *)
  /\ sort_keys_same gt2 gt1 [ka] = true.
Proof. vm_compute. repeat split. Qed.

(* the same, obtained from the theorems instead of by evaluation *)
Example ties_by_theorem g : sort_spec O0 ft g [ka] true = true -> sort_keys_same g gt2 [ka] = true.
Proof.
  intros H. apply (sort_keys_determined_by_spec O0 ft g gt2 [ka] true); auto.
  - apply sort_cols_okb_spec. vm_compute. reflexivity.
Qed.

(* two sort columns, a tie in both, descending *)
Definition ft2 : frame :=
  [ (ka, (ka, [CI KInt 1; CI KInt 1; CI KInt 0; CI KInt 1]));
    (kb, (kb, [sx 120; sx 121; sx 122; sx 120]));
    (kc, (kc, [CB true; CB false; CNil; CS [7]%N])) ].
Example ties_two_columns :
  let g1 := take_rows ft2 [1; 0; 3; 2]%nat in
  let g2 := take_rows ft2 [1; 3; 0; 2]%nat in
  canonical_keys O0 ft2 [ka; kb] = true /\ sort_cols_okb O0 ft2 [ka; kb] = true
  /\ sort_spec O0 ft2 g1 [ka; kb] false = true /\ sort_spec O0 ft2 g2 [ka; kb] false = true
  /\ frame_same g1 g2 = false /\ sort_keys_same g1 g2 [ka; kb] = true.
Proof. vm_compute. repeat split. Qed.

(* the sufficient conditions apply to these columns *)
Example ft_cols : int_col KInt [CI KInt 1; CI KInt 1; CI KInt 0] = true
  /\ text_col O0 [sx 120; sx 121; sx 122; sx 120] = true
  /\ float_col KF64 [CF KF64 (FFin 5); CNil; CF KF64 (FFin 0); CF KF64 FPInf] = true.
Proof. vm_compute. repeat split. Qed.

(* ---- the premise canonical_keys is needed ---- *)
(* +0 and -0 compare equal: both orders satisfy the specification, the sort column differs *)
Definition fz : frame := [ (ka, (ka, [CF KF64 (FFin 0); CF KF64 FNegZero])) ].
Example zeros_not_determined :
  let g := take_rows fz [1; 0]%nat in
  sort_cols_okb O0 fz [ka] = true /\ canonical_keys O0 fz [ka] = false
  /\ sort_spec O0 fz fz [ka] true = true /\ sort_spec O0 fz g [ka] true = true
  /\ sort_keys_same g fz [ka] = false.
Proof. vm_compute. repeat split. Qed.
(* so do an int and an int64 of the same value (column a of Proof_C06.f0 has such a pair) *)
Definition fi : frame := [ (ka, (ka, [CI KInt 1; CI KInt64 1])) ].
Example int_kinds_not_determined :
  let g := take_rows fi [1; 0]%nat in
  sort_cols_okb O0 fi [ka] = true /\ canonical_keys O0 fi [ka] = false
  /\ sort_spec O0 fi fi [ka] true = true /\ sort_spec O0 fi g [ka] true = true
  /\ sort_keys_same g fi [ka] = false
  /\ canonical_keys O0 f0 [ka; kb] = false.
Proof. vm_compute. repeat split. Qed.
(* the weaker conclusion "equal as compared" needs no such premise: eqv_rows_eq_as_compared *)

Print Assumptions sorted_perm_eqv.
Print Assumptions eqv_rows_eq_as_compared.
Print Assumptions eqv_rows_same_keys.
Print Assumptions perm_rows_perm.
Print Assumptions sort_determinate.
Print Assumptions sort_keys_determined_by_spec.
Print Assumptions sort_determinate_cells.
Print Assumptions eqv_rows_same_sort_key.
Print Assumptions int_col_canonical.
Print Assumptions float_col_canonical.
Print Assumptions text_col_canonical.
