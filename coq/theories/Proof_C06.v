(* Proof_C06.v - SortValues: the result is a permutation of whole input rows, ordered by the
   listed columns (earlier columns first; numbers numerically, text lexicographically,
   requested direction, nil after every non-nil cell in either direction).

   Layout
     1. insertion sort is a permutation
     2. positions, pick, rows of a rectangular frame; any sequence of Swap calls keeps rows whole
     3. op_sort: keys, shape, rows are a permutation of the input rows; Err exactly on a missing name
     4. insertion sort is sorted for any strict (weak) order
     5. DataFrameSorter.Less is a strict weak order on one-kind columns
     6. the model's output passes the boolean sortedness check of Corr.v
     7. nil cells sort last in both directions; examples *)
From GF Require Import Ops Lemmas Corr.
From Coq Require Import Lia Permutation Sorted.

Arguments N.eqb : simpl never.

(* ------------------------------------------------------------------------- *)
(* 1. insertion sort is a permutation                                         *)
(* ------------------------------------------------------------------------- *)

Lemma insert_by_perm lt x l : Permutation (insert_by lt x l) (x :: l).
Proof.
  induction l as [|y t IH]; cbn [insert_by].
  - apply Permutation_refl.
  - destruct (lt x y).
    + apply Permutation_refl.
    + eapply perm_trans; [apply perm_skip, IH | apply perm_swap].
Qed.

Theorem isort_perm : forall lt l, Permutation (isort lt l) l.
Proof.
  intros lt l. induction l as [|x t IH]; cbn.
  - apply perm_nil.
  - eapply perm_trans; [apply insert_by_perm | apply perm_skip, IH].
Qed.

Theorem isort_length : forall lt l, length (isort lt l) = length l.
Proof. intros lt l. apply Permutation_length, isort_perm. Qed.

Lemma isort_in lt l x : In x (isort lt l) <-> In x l.
Proof.
  split; apply Permutation_in; [apply isort_perm | apply Permutation_sym, isort_perm].
Qed.

(* ------------------------------------------------------------------------- *)
(* 2. positions, pick, rows                                                   *)
(* ------------------------------------------------------------------------- *)

Lemma nth_opt_ext {A} (l l' : list A) : (forall k, nth_opt l k = nth_opt l' k) -> l = l'.
Proof.
  revert l'; induction l as [|x l IH]; intros [|y l'] H; auto.
  - specialize (H O); discriminate.
  - specialize (H O); discriminate.
  - pose proof (H O) as H0. cbn in H0. inversion H0; subst. f_equal.
    apply IH. intros k. apply (H (S k)).
Qed.

Lemma nth_opt_in {A} (l : list A) i x : nth_opt l i = Some x -> In x l.
Proof.
  revert i; induction l as [|y l IH]; intros [|i] H; cbn in *; try discriminate.
  - inversion H; auto.
  - right. eapply IH; eauto.
Qed.

Lemma nth_opt_map {A B} (h : A -> B) l k : nth_opt (map h l) k = option_map h (nth_opt l k).
Proof. revert k; induction l as [|x l IH]; intros [|k]; cbn; auto. Qed.

Lemma nth_opt_seq a n k : nth_opt (seq a n) k = if Nat.ltb k n then Some (a + k)%nat else None.
Proof.
  revert a k; induction n as [|n IH]; intros a k.
  - destruct k; reflexivity.
  - destruct k as [|k].
    + cbn. f_equal. lia.
    + cbn [seq nth_opt]. rewrite IH. change (Nat.ltb (S k) (S n)) with (Nat.ltb k n).
      destruct (Nat.ltb k n); auto. f_equal. lia.
Qed.

Lemma nth_opt_set_nth {A} (l : list A) i v k :
  nth_opt (set_nth l i v) k =
  if Nat.eqb k i then (if Nat.ltb i (length l) then Some v else None) else nth_opt l k.
Proof.
  revert i k; induction l as [|x l IH]; intros [|i] [|k]; cbn [set_nth nth_opt length Nat.eqb]; auto.
  - destruct (Nat.eqb k i); auto.
  - rewrite IH. change (Nat.ltb (S i) (S (length l))) with (Nat.ltb i (length l)). reflexivity.
Qed.

Lemma set_nth_length {A} (l : list A) i v : length (set_nth l i v) = length l.
Proof. revert i; induction l as [|x l IH]; intros [|i]; cbn; auto. Qed.

(* pick *)
Lemma pick_nil {A} (l : list A) : pick l [] = [].
Proof. reflexivity. Qed.

Lemma pick_cons_in {A} (l : list A) i p x : nth_opt l i = Some x -> pick l (i :: p) = x :: pick l p.
Proof. intros H. unfold pick. cbn [flat_map]. now rewrite H. Qed.

Lemma pick_shift {A} (x : A) l p : pick (x :: l) (map S p) = pick l p.
Proof.
  unfold pick. induction p as [|i p IH]; cbn [map flat_map]; auto. now rewrite IH.
Qed.

Lemma pick_seq_id {A} (l : list A) : pick l (seq 0 (length l)) = l.
Proof.
  induction l as [|x l IH]; auto.
  cbn [length seq]. rewrite (pick_cons_in _ _ _ x) by reflexivity.
  rewrite <- seq_shift, pick_shift. now rewrite IH.
Qed.

(* the picked positions form a permutation of all positions: the result is a permutation *)
Theorem pick_perm {A} (l : list A) p : Permutation p (seq 0 (length l)) -> Permutation (pick l p) l.
Proof.
  intros H. rewrite <- (pick_seq_id l) at 2. unfold pick. now apply Permutation_flat_map.
Qed.

Lemma nth_opt_lt_some {A} (l : list A) i : (i < length l)%nat -> exists x, nth_opt l i = Some x.
Proof.
  revert i; induction l as [|y l IH]; intros [|i] H; cbn in *; try lia.
  - now exists y.
  - apply IH. lia.
Qed.

Lemma nth_opt_pick {A} (l : list A) p k : Forall (fun i => (i < length l)%nat) p ->
  nth_opt (pick l p) k = match nth_opt p k with Some i => nth_opt l i | None => None end.
Proof.
  intros H. revert k. induction H as [|i p Hi Hp IH]; intros k.
  - now destruct k.
  - destruct (nth_opt_lt_some _ _ Hi) as [x E].
    rewrite (pick_cons_in _ _ _ _ E). destruct k as [|k]; cbn [nth_opt]; auto.
Qed.

Lemma pick_length_in {A} (l : list A) p : Forall (fun i => (i < length l)%nat) p -> length (pick l p) = length p.
Proof.
  intros H. induction H as [|i p Hi Hp IH]; auto.
  destruct (nth_opt_lt_some _ _ Hi) as [x E]. rewrite (pick_cons_in _ _ _ _ E). cbn. now rewrite IH.
Qed.

(* the length of a pick depends only on the length of the source *)
Lemma pick_length_dep {A B} (l : list A) (l' : list B) p : length l = length l' -> length (pick l p) = length (pick l' p).
Proof.
  intros H. unfold pick. induction p as [|i p IH]; auto. cbn [flat_map]. rewrite !app_length, IH. f_equal.
  destruct (le_lt_dec (length l) i) as [L|L].
  - rewrite (nth_opt_none l) by lia. rewrite (nth_opt_none l') by lia. reflexivity.
  - destruct (nth_opt_lt_some l i L) as [x E]. assert (L' : (i < length l')%nat) by lia.
    destruct (nth_opt_lt_some l' i L') as [x' E']. now rewrite E, E'.
Qed.

Lemma pick_map_seq {A} (h : nat -> A) n p : Forall (fun i => (i < n)%nat) p -> pick (map h (seq 0 n)) p = map h p.
Proof.
  intros H. induction H as [|i p Hi Hp IH]; auto.
  rewrite (pick_cons_in _ _ _ (h i)).
  - cbn [map]. now rewrite IH.
  - rewrite nth_opt_map, nth_opt_seq. apply Nat.ltb_lt in Hi. now rewrite Hi.
Qed.

(* Swap(i, j) on one column: d[i], d[j] = d[j], d[i]; a no-op here when an index is out of range
   (Go would panic; sort.Sort only passes indexes below Len()) *)
Definition swap_list {A} (i j : nat) (l : list A) : list A :=
  match nth_opt l i, nth_opt l j with
  | Some a, Some b => set_nth (set_nth l i b) j a
  | _, _ => l
  end.
Definition swap_frame (i j : nat) (f : frame) : frame := map_cols (swap_list i j) f.

Definition transp (i j k : nat) : nat := if Nat.eqb k i then j else if Nat.eqb k j then i else k.

Lemma transp_invol i j k : transp i j (transp i j k) = k.
Proof.
  unfold transp.
  destruct (Nat.eqb k i) eqn:E1.
  - apply Nat.eqb_eq in E1. subst k. destruct (Nat.eqb j i) eqn:E2.
    + now apply Nat.eqb_eq in E2.
    + now rewrite Nat.eqb_refl.
  - destruct (Nat.eqb k j) eqn:E2.
    + apply Nat.eqb_eq in E2. subst k. now rewrite Nat.eqb_refl.
    + now rewrite E1, E2.
Qed.

Lemma transp_lt i j k n : (i < n)%nat -> (j < n)%nat -> (k < n)%nat -> (transp i j k < n)%nat.
Proof. intros Hi Hj Hk. unfold transp. destruct (Nat.eqb k i); auto. destruct (Nat.eqb k j); auto. Qed.

Lemma NoDup_map_inj {A B} (h : A -> B) l : (forall x y, h x = h y -> x = y) -> NoDup l -> NoDup (map h l).
Proof.
  intros Hinj H. induction H as [|x l Hx Hl IH]; cbn; constructor; auto.
  intros Hin. apply in_map_iff in Hin. destruct Hin as [y [E Hy]]. apply Hinj in E. now subst.
Qed.

Lemma transp_perm i j n : (i < n)%nat -> (j < n)%nat -> Permutation (map (transp i j) (seq 0 n)) (seq 0 n).
Proof.
  intros Hi Hj. apply NoDup_Permutation.
  - apply NoDup_map_inj; [|apply seq_NoDup].
    intros x y E. rewrite <- (transp_invol i j x), <- (transp_invol i j y). now rewrite E.
  - apply seq_NoDup.
  - intros x. rewrite in_map_iff, in_seq. split.
    + intros [y [E Hy]]. apply in_seq in Hy. subst x. split; [lia|]. apply transp_lt; lia.
    + intros Hx. exists (transp i j x). split; [apply transp_invol|]. apply in_seq. split; [lia|].
      apply transp_lt; lia.
Qed.

Lemma swap_list_length {A} i j (l : list A) : length (swap_list i j l) = length l.
Proof.
  unfold swap_list. destruct (nth_opt l i); auto. destruct (nth_opt l j); auto.
  now rewrite !set_nth_length.
Qed.

Lemma swap_list_out {A} i j (l : list A) : ~ ((i < length l)%nat /\ (j < length l)%nat) -> swap_list i j l = l.
Proof.
  intros H. unfold swap_list.
  destruct (nth_opt l i) eqn:Ei; auto. destruct (nth_opt l j) eqn:Ej; auto.
  apply nth_opt_some_lt in Ei. apply nth_opt_some_lt in Ej. tauto.
Qed.

Lemma transp_range i j n : (i < n)%nat -> (j < n)%nat -> Forall (fun k => (k < n)%nat) (map (transp i j) (seq 0 n)).
Proof.
  intros Hi Hj. apply Forall_forall. intros x Hx. apply in_map_iff in Hx. destruct Hx as [y [E Hy]].
  apply in_seq in Hy. subst x. apply transp_lt; lia.
Qed.

(* a swap is the pick along a transposition of the positions *)
Lemma swap_list_pick {A} i j (l : list A) : (i < length l)%nat -> (j < length l)%nat ->
  swap_list i j l = pick l (map (transp i j) (seq 0 (length l))).
Proof.
  intros Hi Hj. unfold swap_list.
  destruct (nth_opt_lt_some _ _ Hi) as [a Ea]. destruct (nth_opt_lt_some _ _ Hj) as [b Eb].
  rewrite Ea, Eb. apply nth_opt_ext. intros k.
  rewrite nth_opt_pick by now apply transp_range.
  rewrite nth_opt_map, nth_opt_seq. rewrite !nth_opt_set_nth, set_nth_length.
  apply Nat.ltb_lt in Hi, Hj. rewrite Hi, Hj. unfold transp.
  destruct (Nat.eqb k j) eqn:E1.
  - apply Nat.eqb_eq in E1. subst k. rewrite Hj. cbn [option_map Nat.add].
    destruct (Nat.eqb j i) eqn:E2; [|now rewrite Nat.eqb_refl].
    apply Nat.eqb_eq in E2. subst j. congruence.
  - destruct (Nat.eqb k i) eqn:E2.
    + apply Nat.eqb_eq in E2. subst k. rewrite Hi. cbn [option_map Nat.add]. rewrite Nat.eqb_refl. congruence.
    + destruct (Nat.ltb k (length l)) eqn:E3; cbn [option_map Nat.add].
      * now rewrite E2, E1.
      * apply Nat.ltb_ge in E3. now apply nth_opt_none.
Qed.

Theorem swap_list_perm {A} i j (l : list A) : Permutation (swap_list i j l) l.
Proof.
  destruct (le_lt_dec (length l) i) as [Li|Li]; [rewrite swap_list_out by lia; apply Permutation_refl|].
  destruct (le_lt_dec (length l) j) as [Lj|Lj]; [rewrite swap_list_out by lia; apply Permutation_refl|].
  rewrite swap_list_pick by assumption. apply pick_perm. now apply transp_perm.
Qed.

(* ---- frames: columns transformed one by one ---- *)
Lemma map_cols_keys h f : fkeys (map_cols h f) = fkeys f.
Proof. unfold fkeys, map_cols. rewrite map_map. apply map_ext. now intros [k c]. Qed.

Lemma map_cols_ext_in h h' f :
  (forall kc, In kc f -> h (cdata (snd kc)) = h' (cdata (snd kc))) -> map_cols h f = map_cols h' f.
Proof. intros H. unfold map_cols. apply map_ext_in. intros kc Hin. now rewrite (H _ Hin). Qed.

Lemma map_cols_id f : map_cols (fun d => d) f = f.
Proof. unfold map_cols. rewrite <- (map_id f) at 2. apply map_ext. now intros [k [n d]]. Qed.

Lemma fget_map_cols h f k :
  fget (map_cols h f) k = option_map (fun c => (cname c, h (cdata c))) (fget f k).
Proof.
  induction f as [|[k' c] t IH]; cbn [map_cols map fget fst snd]; auto.
  destruct (str_eqb k k'); auto.
Qed.

Lemma rect_col_len f kc : rect f = true -> In kc f -> length (cdata (snd kc)) = nrows f.
Proof.
  unfold rect. rewrite forallb_forall. intros H Hin. apply Nat.eqb_eq. now apply H.
Qed.

Lemma fget_in {A} (f : list (str * A)) k c : fget f k = Some c -> exists k', In (k', c) f.
Proof.
  induction f as [|[k' c'] t IH]; cbn [fget]; [discriminate|].
  destruct (str_eqb k k').
  - intros E. inversion E; subst. exists k'. now left.
  - intros E. destruct (IH E) as [k'' H]. exists k''. now right.
Qed.

Lemma rect_fget_len f k c : rect f = true -> fget f k = Some c -> length (cdata c) = nrows f.
Proof.
  intros Hr E. destruct (fget_in _ _ _ E) as [k' Hin]. apply (rect_col_len f (k', c) Hr Hin).
Qed.

Lemma map_cols_rect h f :
  (forall d d' : list cell, length d = length d' -> length (h d) = length (h d')) ->
  rect f = true -> rect (map_cols h f) = true.
Proof.
  intros Hh Hr. unfold rect. rewrite forallb_forall. intros kc' Hin.
  unfold map_cols in Hin. apply in_map_iff in Hin. destruct Hin as [kc [E Hin]]. subst kc'.
  cbn [snd cdata]. apply Nat.eqb_eq.
  pose proof (rect_col_len f kc Hr Hin) as L.
  destruct f as [|[k0 c0] t]; [destruct Hin|].
  cbn [map_cols map nrows snd cdata]. apply Hh. rewrite L. reflexivity.
Qed.

(* ---- rows of a rectangular frame ---- *)
Definition row_at (f : frame) (i : nat) : rowmap :=
  map (fun kc => (fst kc, nth i (cdata (snd kc)) CNil)) f.

Lemma all_some_row (l : frame) i : (forall kc, In kc l -> (i < length (cdata (snd kc)))%nat) ->
  all_some (map (fun kc => option_map (pair (fst kc)) (nth_opt (cdata (snd kc)) i)) l)
  = Some (map (fun kc => (fst kc, nth i (cdata (snd kc)) CNil)) l).
Proof.
  induction l as [|kc l IH]; intros H; auto.
  cbn [map all_some]. rewrite (nth_opt_nth _ _ CNil) by (apply H; now left).
  cbn [option_map]. rewrite IH; auto. intros kc' Hin. apply H. now right.
Qed.

Lemma frow_rect f i : rect f = true -> (i < nrows f)%nat -> frow f i = Some (row_at f i).
Proof.
  intros Hr Hi. unfold frow. apply Nat.ltb_lt in Hi. rewrite Hi. apply Nat.ltb_lt in Hi.
  apply all_some_row. intros kc Hin. now rewrite (rect_col_len f kc Hr Hin).
Qed.

Lemma flat_map_some {A B} (g : A -> option B) h l : (forall i, In i l -> g i = Some (h i)) ->
  flat_map (fun i => match g i with Some r => [r] | None => [] end) l = map h l.
Proof.
  induction l as [|x l IH]; intros H; auto. cbn [flat_map map].
  rewrite (H x) by now left. rewrite IH; auto. intros i Hi. apply H. now right.
Qed.

Lemma rows_rect f : rect f = true -> rows f = map (row_at f) (seq 0 (nrows f)).
Proof.
  intros Hr. unfold rows. apply flat_map_some. intros i Hi. apply in_seq in Hi.
  apply frow_rect; auto. lia.
Qed.

Lemma rows_length f : rect f = true -> length (rows f) = nrows f.
Proof. intros Hr. now rewrite rows_rect, map_length, seq_length. Qed.

Lemma nth_nth_opt {A} (l : list A) k d : nth k l d = match nth_opt l k with Some x => x | None => d end.
Proof. revert k; induction l as [|x l IH]; intros [|k]; cbn; auto. Qed.

Lemma pick_nil_l {A} p : pick (@nil A) p = [].
Proof. unfold pick. induction p as [|i p IH]; auto. Qed.

Lemma nrows_pick f p : rect f = true -> Forall (fun i => (i < nrows f)%nat) p -> f <> [] ->
  nrows (map_cols (fun d => pick d p) f) = length p.
Proof.
  intros Hr Hp Hne. destruct f as [|[k0 c0] t]; [congruence|].
  cbn [map_cols map nrows snd cdata]. apply pick_length_in. exact Hp.
Qed.

Lemma pick_rect f p : rect f = true -> rect (map_cols (fun d => pick d p) f) = true.
Proof. apply map_cols_rect. intros d d' H. now apply pick_length_dep. Qed.

(* picking the same positions from every column picks whole rows *)
Theorem rows_pick_perm f p : rect f = true -> Forall (fun i => (i < nrows f)%nat) p ->
  rows (map_cols (fun d => pick d p) f) = pick (rows f) p.
Proof.
  intros Hr Hp.
  destruct f as [|kc0 t] eqn:Ef.
  - cbn. now rewrite pick_nil_l.
  - rewrite <- Ef in *. assert (Hne : f <> []) by (rewrite Ef; discriminate). clear Ef.
    rewrite (rows_rect _ (pick_rect f p Hr)), (nrows_pick f p Hr Hp Hne).
    rewrite (rows_rect f Hr), pick_map_seq by exact Hp.
    apply nth_opt_ext. intros k. rewrite !nth_opt_map, nth_opt_seq. cbn [Nat.add].
    destruct (Nat.ltb k (length p)) eqn:Ek.
    + apply Nat.ltb_lt in Ek. destruct (nth_opt_lt_some _ _ Ek) as [i Ei]. rewrite Ei.
      cbn [option_map]. f_equal. unfold row_at, map_cols. rewrite map_map.
      apply map_ext_in. intros kc Hin. cbn [fst snd cdata]. f_equal.
      rewrite !nth_nth_opt. rewrite nth_opt_pick, Ei; auto.
      now rewrite (rect_col_len f kc Hr Hin).
    + apply Nat.ltb_ge in Ek. now rewrite (nth_opt_none p k Ek).
Qed.

(* ---- any sequence of Swap calls keeps rows whole ---- *)
Lemma swap_frame_rect i j f : rect f = true -> rect (swap_frame i j f) = true.
Proof. apply map_cols_rect. intros d d' H. now rewrite !swap_list_length. Qed.

Lemma swap_frame_keys i j f : fkeys (swap_frame i j f) = fkeys f.
Proof. apply map_cols_keys. Qed.

Theorem swap_frame_rows i j f : rect f = true -> rows (swap_frame i j f) = swap_list i j (rows f).
Proof.
  intros Hr. unfold swap_frame.
  destruct (le_lt_dec (nrows f) i) as [Li|Li]; [|destruct (le_lt_dec (nrows f) j) as [Lj|Lj]].
  - rewrite (swap_list_out i j (rows f)) by (rewrite rows_length; auto; lia).
    rewrite (map_cols_ext_in _ (fun d => d)); [now rewrite map_cols_id|].
    intros kc Hin. apply swap_list_out. rewrite (rect_col_len f kc Hr Hin). lia.
  - rewrite (swap_list_out i j (rows f)) by (rewrite rows_length; auto; lia).
    rewrite (map_cols_ext_in _ (fun d => d)); [now rewrite map_cols_id|].
    intros kc Hin. apply swap_list_out. rewrite (rect_col_len f kc Hr Hin). lia.
  - rewrite (map_cols_ext_in _ (fun d => pick d (map (transp i j) (seq 0 (nrows f))))).
    + rewrite rows_pick_perm; auto; [|now apply transp_range].
      rewrite swap_list_pick; rewrite rows_length; auto.
    + intros kc Hin. pose proof (rect_col_len f kc Hr Hin) as L.
      rewrite swap_list_pick; rewrite L; auto.
Qed.

Theorem swaps_keep_rows f : rect f = true -> forall sw : list (nat * nat),
  Permutation (rows (fold_left (fun g ij => swap_frame (fst ij) (snd ij) g) sw f)) (rows f).
Proof.
  intros Hr sw. revert f Hr. induction sw as [|[i j] sw IH]; intros f Hr; cbn [fold_left fst snd].
  - apply Permutation_refl.
  - eapply perm_trans; [apply IH, swap_frame_rect, Hr|].
    rewrite swap_frame_rows by exact Hr. apply swap_list_perm.
Qed.

Theorem swaps_keep_rect f : rect f = true -> forall sw : list (nat * nat),
  rect (fold_left (fun g ij => swap_frame (fst ij) (snd ij) g) sw f) = true
  /\ fkeys (fold_left (fun g ij => swap_frame (fst ij) (snd ij) g) sw f) = fkeys f.
Proof.
  intros Hr sw. revert f Hr. induction sw as [|[i j] sw IH]; intros f Hr; cbn [fold_left fst snd].
  - auto.
  - destruct (IH _ (swap_frame_rect i j f Hr)) as [H1 H2]. split; auto.
    now rewrite H2, swap_frame_keys.
Qed.

(* ------------------------------------------------------------------------- *)
(* 3. op_sort: outcome, keys, shape, rows                                     *)
(* ------------------------------------------------------------------------- *)

Definition sort_perm (O : oracles) (f : frame) (by_ : list str) (asc : bool) : list nat :=
  isort (less O f by_ asc) (seq 0 (nrows f)).

Lemma sort_perm_perm O f by_ asc : Permutation (sort_perm O f by_ asc) (seq 0 (nrows f)).
Proof. apply isort_perm. Qed.

Lemma sort_perm_range O f by_ asc : Forall (fun i => (i < nrows f)%nat) (sort_perm O f by_ asc).
Proof.
  apply Forall_forall. intros i Hi. apply isort_in, in_seq in Hi. lia.
Qed.

Lemma sort_perm_length O f by_ asc : length (sort_perm O f by_ asc) = nrows f.
Proof. unfold sort_perm. now rewrite isort_length, seq_length. Qed.

Lemma op_sort_ok O f by_ asc g : op_sort O f by_ asc = Ok g ->
  g = map_cols (fun d => pick d (sort_perm O f by_ asc)) f.
Proof.
  unfold op_sort. destruct (negb (forallb (fhas f) by_)); [discriminate|].
  intros E. now inversion E.
Qed.

Lemma forallb_false_ex {A} (p : A -> bool) l : forallb p l = false <-> exists x, In x l /\ p x = false.
Proof.
  induction l as [|x l IH]; cbn [forallb].
  - split; [discriminate|]. intros [x [[] _]].
  - destruct (p x) eqn:E; cbn [andb].
    + rewrite IH. split.
      * intros [y [Hy Py]]. exists y. split; auto. now right.
      * intros [y [[Hy|Hy] Py]]; [subst; congruence|]. exists y. auto.
    + split; auto. intros _. exists x. split; auto. now left.
Qed.

(* the call fails exactly when a sort name is not a column; it never panics *)
Theorem op_sort_err O f by_ asc :
  op_sort O f by_ asc = Err <-> exists k, In k by_ /\ fhas f k = false.
Proof.
  rewrite <- forallb_false_ex. unfold op_sort.
  destruct (forallb (fhas f) by_); cbn [negb]; split; auto; discriminate.
Qed.

Theorem op_sort_no_panic O f by_ asc : op_sort O f by_ asc <> Panic.
Proof. unfold op_sort. destruct (negb (forallb (fhas f) by_)); discriminate. Qed.

Theorem op_sort_ok_iff O f by_ asc :
  (exists g, op_sort O f by_ asc = Ok g) <-> forall k, In k by_ -> fhas f k = true.
Proof.
  unfold op_sort. destruct (forallb (fhas f) by_) eqn:E; cbn [negb].
  - rewrite forallb_forall in E. split; auto. intros _. eexists. reflexivity.
  - apply forallb_false_ex in E. destruct E as [k [Hk Fk]]. split.
    + intros [g Hg]. discriminate.
    + intros H. rewrite (H k Hk) in Fk. discriminate.
Qed.

Lemma nrows_sort O f by_ asc : rect f = true ->
  nrows (map_cols (fun d => pick d (sort_perm O f by_ asc)) f) = nrows f.
Proof.
  intros Hr. destruct f as [|kc t] eqn:Ef; auto. rewrite <- Ef in *.
  rewrite nrows_pick; auto.
  - apply sort_perm_length.
  - apply sort_perm_range.
  - rewrite Ef. discriminate.
Qed.

Lemma map_cols_names_ok h f : names_ok f = true -> names_ok (map_cols h f) = true.
Proof.
  unfold names_ok. rewrite !forallb_forall. intros H kc' Hin.
  unfold map_cols in Hin. apply in_map_iff in Hin. destruct Hin as [kc [E Hin]]. subst kc'.
  cbn [fst snd cname]. now apply H.
Qed.

(* same names, rectangular, and the rows are a permutation of the input rows *)
Theorem op_sort_perm O f by_ asc g : rect f = true -> op_sort O f by_ asc = Ok g ->
  fkeys g = fkeys f /\ rect g = true /\ nrows g = nrows f /\ Permutation (rows g) (rows f).
Proof.
  intros Hr Hg. apply op_sort_ok in Hg. subst g. repeat split.
  - apply map_cols_keys.
  - now apply pick_rect.
  - now apply nrows_sort.
  - rewrite rows_pick_perm; auto; [|apply sort_perm_range].
    apply pick_perm. rewrite rows_length by exact Hr. apply sort_perm_perm.
Qed.

Theorem op_sort_wf O f by_ asc g : wf_frame f = true -> op_sort O f by_ asc = Ok g -> wf_frame g = true.
Proof.
  unfold wf_frame. intros Hwf Hg.
  apply andb_prop in Hwf. destruct Hwf as [Hwf Hs]. apply andb_prop in Hwf. destruct Hwf as [Hr Hn].
  destruct (op_sort_perm O f by_ asc g Hr Hg) as [Hk [Hr' _]].
  apply op_sort_ok in Hg. rewrite Hr', Hk, Hs. subst g. now rewrite map_cols_names_ok.
Qed.

(* ------------------------------------------------------------------------- *)
(* 4. insertion sort orders its input, for any strict weak order              *)
(* ------------------------------------------------------------------------- *)

Section InsertionSort.
  Variable lt : nat -> nat -> bool.
  Hypothesis lt_irrefl : forall x, lt x x = false.
  Hypothesis lt_trans : forall x y z, lt x y = true -> lt y z = true -> lt x z = true.
  Hypothesis lt_negtrans : forall x y z, lt x y = false -> lt y z = false -> lt x z = false.

  (* a may stand before b: b is not strictly less than a *)
  Definition notgt (a b : nat) : Prop := lt b a = false.

  Lemma lt_asym x y : lt x y = true -> lt y x = false.
  Proof.
    intros H. destruct (lt y x) eqn:E; auto.
    rewrite <- (lt_irrefl x). symmetry. eapply lt_trans; eauto.
  Qed.

  Lemma insert_by_sorted x l : StronglySorted notgt l -> StronglySorted notgt (insert_by lt x l).
  Proof.
    intros H. induction H as [|y t Ht IH Hy]; cbn [insert_by].
    - constructor; constructor.
    - destruct (lt x y) eqn:E.
      + constructor; [constructor; assumption|]. constructor.
        * apply lt_asym, E.
        * rewrite Forall_forall in *. intros z Hz. specialize (Hy z Hz). unfold notgt in *.
          destruct (lt z x) eqn:Ez; auto. rewrite <- Hy. symmetry. eapply lt_trans; eauto.
      + constructor; auto.
        eapply Permutation_Forall; [apply Permutation_sym, insert_by_perm|].
        constructor; auto.
  Qed.

  (* no element is strictly less than an earlier one *)
  Theorem isort_sorted : forall l, StronglySorted notgt (isort lt l).
  Proof.
    induction l as [|x l IH]; cbn [isort fold_right].
    - constructor.
    - apply insert_by_sorted, IH.
  Qed.

  Lemma strongly_sorted_nth l : StronglySorted notgt l ->
    forall a b, (a < b)%nat -> (b < length l)%nat -> notgt (nth a l O) (nth b l O).
  Proof.
    intros H. induction H as [|y t Ht IH Hy]; intros a b Hab Hb; cbn [length] in Hb; [lia|].
    destruct b as [|b]; [lia|]. destruct a as [|a]; cbn [nth].
    - rewrite Forall_forall in Hy. apply Hy. apply nth_In. lia.
    - apply IH; lia.
  Qed.

  (* the form evaluated by the checker: no inversion between neighbours *)
  Theorem isort_adjacent l k : (S k < length l)%nat ->
    lt (nth (S k) (isort lt l) O) (nth k (isort lt l) O) = false.
  Proof.
    intros H. apply (strongly_sorted_nth _ (isort_sorted l) k (S k)); [lia|].
    now rewrite isort_length.
  Qed.

  (* conversely, for a strict weak order the neighbour check implies the global ordering *)
  Theorem adjacent_sorted l : Sorted notgt l -> StronglySorted notgt l.
  Proof.
    apply Sorted_StronglySorted. intros a b c Hab Hbc. unfold notgt in *. eapply lt_negtrans; eauto.
  Qed.

  Lemma adjacent_nth_sorted l : (forall k, (S k < length l)%nat -> lt (nth (S k) l O) (nth k l O) = false) ->
    StronglySorted notgt l.
  Proof.
    intros H. apply adjacent_sorted. induction l as [|x l IH]; constructor.
    - apply IH. intros k Hk. apply (H (S k)). cbn [length]. lia.
    - destruct l as [|y l]; constructor. apply (H O). cbn [length]. lia.
  Qed.
End InsertionSort.


(* ------------------------------------------------------------------------- *)
(* 5. DataFrameSorter.Less is a strict weak order on one-kind columns         *)
(* ------------------------------------------------------------------------- *)

(* three-way comparisons that behave like the comparison of a total preorder *)
Record cmp_ok {A} (c : A -> A -> comparison) : Prop := {
  c_refl : forall a, c a a = Eq;
  c_anti : forall a b, c b a = CompOpp (c a b);
  c_trans : forall a b d, c a b = Lt -> c b d = Lt -> c a d = Lt;
  c_eq : forall a b d, c a b = Eq -> c a d = c b d
}.

Lemma c_eq_r {A} (c : A -> A -> comparison) : cmp_ok c -> forall a b d, c a b = Eq -> c d a = c d b.
Proof. intros H a b d E. rewrite (c_anti c H a d), (c_anti c H b d). f_equal. now apply c_eq. Qed.

(* lexicographic combination *)
Definition lexc {A} (c1 c2 : A -> A -> comparison) (a b : A) : comparison :=
  match c1 a b with Eq => c2 a b | x => x end.

Lemma cmp_ok_Z : cmp_ok Z.compare.
Proof.
  constructor.
  - apply Z.compare_refl.
  - intros a b. apply Z.compare_antisym.
  - intros a b d H1 H2. change (a < b) in H1. change (b < d) in H2. change (a < d). lia.
  - intros a b d H. apply Z.compare_eq in H. now subst.
Qed.

Lemma cmp_ok_str : cmp_ok str_compare.
Proof.
  constructor.
  - intros a. now apply str_compare_eq.
  - intros a b. apply str_compare_antisym.
  - apply str_compare_lt_trans.
  - intros a b d H. apply str_compare_eq in H. now subst.
Qed.

Lemma cmp_ok_pull {A B} (key : A -> B) c : cmp_ok c -> cmp_ok (fun a b => c (key a) (key b)).
Proof.
  intros H. constructor; intros.
  - apply (c_refl c H).
  - apply (c_anti c H).
  - eapply (c_trans c H); eauto.
  - now apply (c_eq c H).
Qed.

Lemma cmp_ok_flip {A} (c : A -> A -> comparison) : cmp_ok c -> cmp_ok (fun a b => c b a).
Proof.
  intros H. constructor.
  - intros a. apply (c_refl c H).
  - intros a b. apply (c_anti c H).
  - intros a b d H1 H2. eapply (c_trans c H); eauto.
  - intros a b d E. apply (c_eq_r c H). rewrite (c_anti c H), E. reflexivity.
Qed.

Lemma cmp_ok_lex {A} (c1 c2 : A -> A -> comparison) : cmp_ok c1 -> cmp_ok c2 -> cmp_ok (lexc c1 c2).
Proof.
  intros H1 H2. constructor; unfold lexc.
  - intros a. now rewrite (c_refl c1 H1), (c_refl c2 H2).
  - intros a b. rewrite (c_anti c1 H1 a b), (c_anti c2 H2 a b). now destruct (c1 a b).
  - intros a b d.
    destruct (c1 a b) eqn:E1; try discriminate; destruct (c1 b d) eqn:E2; try discriminate; intros Ha Hb.
    + rewrite (c_eq c1 H1 a b d E1), E2. eapply (c_trans c2 H2); eauto.
    + now rewrite (c_eq c1 H1 a b d E1), E2.
    + now rewrite <- (c_eq_r c1 H1 b d a E2), E1.
    + now rewrite (c_trans c1 H1 a b d E1 E2).
  - intros a b d. destruct (c1 a b) eqn:E1; try discriminate. intros E2.
    now rewrite (c_eq c1 H1 a b d E1), (c_eq c2 H2 a b d E2).
Qed.

Lemma cmp_ok_const {A} : cmp_ok (fun _ _ : A => Eq).
Proof. constructor; auto. Qed.

Definition ltc {A} (c : A -> A -> comparison) (a b : A) : bool :=
  match c a b with Lt => true | _ => false end.

Lemma ltc_irrefl {A} (c : A -> A -> comparison) : cmp_ok c -> forall a, ltc c a a = false.
Proof. intros H a. unfold ltc. now rewrite (c_refl c H). Qed.

Lemma ltc_trans {A} (c : A -> A -> comparison) : cmp_ok c ->
  forall a b d, ltc c a b = true -> ltc c b d = true -> ltc c a d = true.
Proof.
  intros H a b d. unfold ltc.
  destruct (c a b) eqn:E1; try discriminate. destruct (c b d) eqn:E2; try discriminate.
  now rewrite (c_trans c H a b d E1 E2).
Qed.

Lemma ltc_negtrans {A} (c : A -> A -> comparison) : cmp_ok c ->
  forall a b d, ltc c a b = false -> ltc c b d = false -> ltc c a d = false.
Proof.
  intros H a b d. unfold ltc.
  destruct (c a b) eqn:E1; try discriminate; destruct (c b d) eqn:E2; try discriminate; intros _ _.
  - now rewrite (c_eq c H a b d E1), E2.
  - now rewrite (c_eq c H a b d E1), E2.
  - now rewrite <- (c_eq_r c H b d a E2), E1.
  - assert (G : c d a = Lt).
    { apply (c_trans c H d b a).
      - rewrite (c_anti c H b d), E2. reflexivity.
      - rewrite (c_anti c H a b), E1. reflexivity. }
    rewrite (c_anti c H d a), G. reflexivity.
Qed.

(* the order of two non-NaN binary64 values *)
Definition fl_rank (x : fl) : Z :=
  match x with FNInf => -1 | FPInf => 1 | FNaN => 2 | FNegZero | FFin _ => 0 end.
Definition fl_mant (x : fl) : Z := match x with FFin m => m | _ => 0 end.
Definition fl_cmp (x y : fl) : comparison :=
  match Z.compare (fl_rank x) (fl_rank y) with
  | Eq => Z.compare (fl_mant x) (fl_mant y)
  | c => c
  end.

Definition cmp_facts (c : comparison) (eqxy eqyx ltxy ltyx : bool) : Prop :=
  match c with
  | Eq => eqxy = true /\ eqyx = true /\ ltxy = false /\ ltyx = false
  | Lt => eqxy = false /\ eqyx = false /\ ltxy = true /\ ltyx = false
  | Gt => eqxy = false /\ eqyx = false /\ ltxy = false /\ ltyx = true
  end.

Lemma Z_cmp_facts x y : cmp_facts (Z.compare x y) (Z.eqb x y) (Z.eqb y x) (Z.ltb x y) (Z.ltb y x).
Proof.
  destruct (Z.compare_spec x y) as [E|L|G]; unfold cmp_facts; repeat split;
    try (apply Z.eqb_eq; lia); try (apply Z.eqb_neq; lia); try (apply Z.ltb_lt; lia); try (apply Z.ltb_ge; lia).
Qed.

Lemma fl_cmp_facts x y : fl_is_nan x = false -> fl_is_nan y = false ->
  cmp_facts (fl_cmp x y) (fl_eq x y) (fl_eq y x) (fl_lt x y) (fl_lt y x).
Proof.
  intros Hx Hy. destruct x as [| | | |m]; try discriminate; destruct y as [| | | |m']; try discriminate;
    try (cbv; tauto).
  - (* -0, finite *)
    unfold fl_cmp, fl_rank, fl_mant, fl_eq, fl_lt, fl_is_zero. change (0 ?= 0) with Eq. cbv iota.
    destruct m'; cbv; tauto.
  - unfold fl_cmp, fl_rank, fl_mant, fl_eq, fl_lt, fl_is_zero. change (0 ?= 0) with Eq. cbv iota.
    destruct m; cbv; tauto.
  - unfold fl_cmp, fl_rank, fl_mant, fl_eq, fl_lt. change (0 ?= 0) with Eq. cbv iota.
    apply Z_cmp_facts.
Qed.

Lemma str_cmp_facts a b :
  cmp_facts (str_compare a b) (str_eqb a b) (str_eqb b a) (str_ltb a b) (str_ltb b a).
Proof.
  unfold str_ltb. rewrite (str_compare_antisym a b). rewrite (str_eqb_sym b a).
  destruct (str_compare a b) eqn:E; unfold cmp_facts; cbn [CompOpp].
  - apply str_compare_eq in E. subst. now rewrite str_eqb_refl.
  - assert (N : str_eqb a b = false).
    { apply str_eqb_neq. intros ->. rewrite (proj2 (str_compare_eq b b) eq_refl) in E. discriminate. }
    now rewrite N.
  - assert (N : str_eqb a b = false).
    { apply str_eqb_neq. intros ->. rewrite (proj2 (str_compare_eq b b) eq_refl) in E. discriminate. }
    now rewrite N.
Qed.

(* the comparison key of a cell: numeric cells by value, every other cell by its %v text *)
Definition cell_rank (O : oracles) (c : cell) : Z :=
  match to_float O c with Some x => fl_rank x | None => 0 end.
Definition cell_mant (O : oracles) (c : cell) : Z :=
  match to_float O c with Some x => fl_mant x | None => 0 end.
Definition cell_text (O : oracles) (c : cell) : str :=
  match to_float O c with Some _ => [] | None => render O c end.
Definition base_cmp (O : oracles) : cell -> cell -> comparison :=
  lexc (fun a b => Z.compare (cell_rank O a) (cell_rank O b))
    (lexc (fun a b => Z.compare (cell_mant O a) (cell_mant O b))
          (fun a b => str_compare (cell_text O a) (cell_text O b))).
Definition nilz (c : cell) : Z := if is_nil c then 1 else 0.
(* nil last in both directions; the direction only applies between non-nil cells *)
Definition cmp_cell (O : oracles) (asc : bool) : cell -> cell -> comparison :=
  lexc (fun a b => Z.compare (nilz a) (nilz b))
       (if asc then base_cmp O else fun a b => base_cmp O b a).

Lemma base_cmp_ok O : cmp_ok (base_cmp O).
Proof.
  unfold base_cmp. apply cmp_ok_lex; [|apply cmp_ok_lex].
  - apply (cmp_ok_pull (cell_rank O)), cmp_ok_Z.
  - apply (cmp_ok_pull (cell_mant O)), cmp_ok_Z.
  - apply (cmp_ok_pull (cell_text O)), cmp_ok_str.
Qed.

Lemma cmp_cell_ok O asc : cmp_ok (cmp_cell O asc).
Proof.
  unfold cmp_cell. apply cmp_ok_lex.
  - apply (cmp_ok_pull nilz), cmp_ok_Z.
  - destruct asc; [|apply cmp_ok_flip]; apply base_cmp_ok.
Qed.

(* rows compared column by column *)
Definition col_cmp (O : oracles) (f : frame) (asc : bool) (k : str) (i j : nat) : comparison :=
  cmp_cell O asc (cell_at f k i) (cell_at f k j).
Fixpoint row_cmp (O : oracles) (f : frame) (by_ : list str) (asc : bool) (i j : nat) : comparison :=
  match by_ with
  | [] => Eq
  | k :: rest => lexc (col_cmp O f asc k) (row_cmp O f rest asc) i j
  end.

Lemma row_cmp_ok O f by_ asc : cmp_ok (row_cmp O f by_ asc).
Proof.
  induction by_ as [|k rest IH].
  - apply cmp_ok_const.
  - change (cmp_ok (lexc (col_cmp O f asc k) (row_cmp O f rest asc))).
    apply cmp_ok_lex; auto.
    apply (cmp_ok_pull (cell_at f k)), cmp_cell_ok.
Qed.

(* ---- the precondition: a sort column does not mix numbers with text, and holds no NaN ---- *)
Definition num_cell (O : oracles) (c : cell) : bool :=
  is_nil c || match to_float O c with Some x => negb (fl_is_nan x) | None => false end.
Definition text_cell (O : oracles) (c : cell) : bool :=
  match to_float O c with None => true | Some _ => false end.
Definition col_one_kind (O : oracles) (d : list cell) : bool :=
  forallb (num_cell O) d || forallb (text_cell O) d.
Definition sort_cols_ok (O : oracles) (f : frame) (by_ : list str) : Prop :=
  forall k, In k by_ -> exists c, fget f k = Some c /\ col_one_kind O (cdata c) = true.

(* the cells named in the task all qualify *)
Lemma num_cell_int O k z : Z.abs z < p53 -> num_cell O (CI k z) = true.
Proof.
  intros H. unfold num_cell. cbn [is_nil to_float orb]. unfold fl_of_Z.
  apply Z.ltb_lt in H. now rewrite H.
Qed.
Lemma num_cell_fin O k m : num_cell O (CF k (FFin m)) = true.
Proof. reflexivity. Qed.
Lemma num_cell_negzero O k : num_cell O (CF k FNegZero) = true.
Proof. reflexivity. Qed.
Lemma num_cell_inf O k : num_cell O (CF k FPInf) = true /\ num_cell O (CF k FNInf) = true.
Proof. split; reflexivity. Qed.
Lemma text_cell_str O s : pf O s = None -> text_cell O (CS s) = true.
Proof. intros H. unfold text_cell. cbn [to_float]. now rewrite H. Qed.
Lemma text_cell_bool O b : text_cell O (CB b) = true.
Proof. reflexivity. Qed.
Lemma text_cell_time O t : text_cell O (CT t) = true.
Proof. reflexivity. Qed.
Lemma nil_any_kind O : num_cell O CNil = true /\ text_cell O CNil = true.
Proof. split; reflexivity. Qed.

(* ---- Less, unfolded ---- *)
Definition less_nn (O : oracles) (asc : bool) (a b : cell) (R : bool) : bool :=
  match to_float O a, to_float O b with
  | Some x, Some y => if fl_eq x y then R else if asc then fl_lt x y else fl_lt y x
  | _, _ =>
    let s1 := render O a in
    let s2 := render O b in
    if str_eqb s1 s2 then R else if asc then str_ltb s1 s2 else str_ltb s2 s1
  end.

Lemma less_unfold O f k rest asc i j :
  less O f (k :: rest) asc i j =
  if is_nil (cell_at f k i) then (if is_nil (cell_at f k j) then less O f rest asc i j else false)
  else if is_nil (cell_at f k j) then true
  else less_nn O asc (cell_at f k i) (cell_at f k j) (less O f rest asc i j).
Proof. cbn [less]. destruct (cell_at f k i), (cell_at f k j); reflexivity. Qed.

Definition dec (c : comparison) (R : bool) : bool :=
  match c with Eq => R | Lt => true | Gt => false end.

Lemma cmp_eta (c : comparison) : match c with Eq => Eq | Lt => Lt | Gt => Gt end = c.
Proof. now destruct c. Qed.

Lemma less_nn_num O asc a b R x y :
  to_float O a = Some x -> to_float O b = Some y -> fl_is_nan x = false -> fl_is_nan y = false ->
  less_nn O asc a b R = dec (if asc then base_cmp O a b else base_cmp O b a) R.
Proof.
  intros Ea Eb Nx Ny. unfold less_nn, base_cmp, lexc, cell_rank, cell_mant, cell_text.
  rewrite Ea, Eb. cbn [str_compare]. rewrite !cmp_eta.
  change (match fl_rank x ?= fl_rank y with Eq => fl_mant x ?= fl_mant y | c => c end) with (fl_cmp x y).
  change (match fl_rank y ?= fl_rank x with Eq => fl_mant y ?= fl_mant x | c => c end) with (fl_cmp y x).
  pose proof (fl_cmp_facts x y Nx Ny) as F1. pose proof (fl_cmp_facts y x Ny Nx) as F2.
  destruct asc.
  - destruct (fl_cmp x y); unfold cmp_facts in F1; destruct F1 as [E1 [E2 [L1 L2]]]; rewrite E1, ?L1; reflexivity.
  - destruct (fl_cmp y x); unfold cmp_facts in F2; destruct F2 as [E1 [E2 [L1 L2]]]; rewrite E2, ?L1; reflexivity.
Qed.

Lemma less_nn_text O asc a b R :
  to_float O a = None -> to_float O b = None ->
  less_nn O asc a b R = dec (if asc then base_cmp O a b else base_cmp O b a) R.
Proof.
  intros Ea Eb. unfold less_nn, base_cmp, lexc, cell_rank, cell_mant, cell_text.
  rewrite Ea, Eb. change (0 ?= 0) with Eq. cbv iota zeta.
  pose proof (str_cmp_facts (render O a) (render O b)) as F1.
  pose proof (str_cmp_facts (render O b) (render O a)) as F2.
  destruct asc.
  - destruct (str_compare (render O a) (render O b)); unfold cmp_facts in F1;
      destruct F1 as [E1 [E2 [L1 L2]]]; rewrite E1, ?L1; reflexivity.
  - destruct (str_compare (render O b) (render O a)); unfold cmp_facts in F2;
      destruct F2 as [E1 [E2 [L1 L2]]]; rewrite E2, ?L1; reflexivity.
Qed.

Definition same_kind (O : oracles) (a b : cell) : Prop :=
  (num_cell O a = true /\ num_cell O b = true) \/ (text_cell O a = true /\ text_cell O b = true).

Lemma less_nn_cmp O asc a b R : is_nil a = false -> is_nil b = false -> same_kind O a b ->
  less_nn O asc a b R = dec (if asc then base_cmp O a b else base_cmp O b a) R.
Proof.
  intros Na Nb [[Ka Kb]|[Ka Kb]].
  - unfold num_cell in Ka, Kb. rewrite Na in Ka. rewrite Nb in Kb. cbn [orb] in Ka, Kb.
    destruct (to_float O a) as [x|] eqn:Ea; [|discriminate].
    destruct (to_float O b) as [y|] eqn:Eb; [|discriminate].
    apply negb_true_iff in Ka. apply negb_true_iff in Kb.
    now apply (less_nn_num O asc a b R x y).
  - unfold text_cell in Ka, Kb.
    destruct (to_float O a) eqn:Ea; [discriminate|]. destruct (to_float O b) eqn:Eb; [discriminate|].
    now apply less_nn_text.
Qed.

Lemma cmp_cell_nil_nil O asc : cmp_cell O asc CNil CNil = Eq.
Proof. apply (c_refl _ (cmp_cell_ok O asc)). Qed.

(* one column of Less is the three-way comparison of the two cells *)
Lemma less_step O f k rest asc i j : same_kind O (cell_at f k i) (cell_at f k j) ->
  less O f (k :: rest) asc i j = dec (col_cmp O f asc k i j) (less O f rest asc i j).
Proof.
  intros K. rewrite less_unfold. unfold col_cmp.
  destruct (is_nil (cell_at f k i)) eqn:Na; destruct (is_nil (cell_at f k j)) eqn:Nb.
  - destruct (cell_at f k i); try discriminate. destruct (cell_at f k j); try discriminate.
    now rewrite cmp_cell_nil_nil.
  - unfold cmp_cell, lexc, nilz. rewrite Na, Nb. reflexivity.
  - unfold cmp_cell, lexc, nilz. rewrite Na, Nb. reflexivity.
  - rewrite (less_nn_cmp O asc _ _ _ Na Nb K).
    unfold cmp_cell, lexc, nilz. rewrite Na, Nb. change (0 ?= 0) with Eq. cbv iota.
    now destruct asc.
Qed.

Lemma cell_at_cases f k i :
  cell_at f k i = CNil \/ exists c, fget f k = Some c /\ In (cell_at f k i) (cdata c).
Proof.
  unfold cell_at. destruct (fget f k) as [c|]; auto.
  destruct (nth_opt (cdata c) i) as [v|] eqn:E; auto.
  right. exists c. split; auto. eapply nth_opt_in; eauto.
Qed.

Lemma one_kind_same O f k c i j : fget f k = Some c -> col_one_kind O (cdata c) = true ->
  same_kind O (cell_at f k i) (cell_at f k j).
Proof.
  intros E H. unfold col_one_kind in H. apply orb_prop in H.
  assert (P : forall (p : cell -> bool), p CNil = true -> forallb p (cdata c) = true ->
              forall i, p (cell_at f k i) = true).
  { intros p Hn Hp i'. destruct (cell_at_cases f k i') as [-> | [c' [E' Hin]]]; auto.
    rewrite E in E'. inversion E'; subst c'. rewrite forallb_forall in Hp. now apply Hp. }
  destruct H as [H|H]; [left|right]; split; apply P; auto.
Qed.

(* Less is "the row comparison says Lt" *)
Theorem less_is_row_cmp O f by_ asc : sort_cols_ok O f by_ ->
  forall i j, less O f by_ asc i j = ltc (row_cmp O f by_ asc) i j.
Proof.
  induction by_ as [|k rest IH]; intros H i j.
  - reflexivity.
  - destruct (H k (or_introl eq_refl)) as [c [E Hc]].
    rewrite less_step by (eapply one_kind_same; eauto).
    rewrite IH by (intros k' Hk'; apply H; now right).
    unfold ltc. cbn [row_cmp]. unfold lexc. now destruct (col_cmp O f asc k i j).
Qed.

(* strict weak order: irreflexive, transitive, incomparability is transitive *)
Theorem less_strict_weak O f by_ asc : sort_cols_ok O f by_ ->
  (forall i, less O f by_ asc i i = false)
  /\ (forall i j k, less O f by_ asc i j = true -> less O f by_ asc j k = true -> less O f by_ asc i k = true)
  /\ (forall i j k, less O f by_ asc i j = false -> less O f by_ asc j k = false -> less O f by_ asc i k = false).
Proof.
  intros H. pose proof (less_is_row_cmp O f by_ asc H) as L.
  pose proof (row_cmp_ok O f by_ asc) as C. repeat split.
  - intros i. rewrite L. now apply ltc_irrefl.
  - intros i j k. rewrite !L. now apply ltc_trans.
  - intros i j k. rewrite !L. now apply ltc_negtrans.
Qed.

Corollary less_strict_weak_1 O f k asc c : fget f k = Some c -> col_one_kind O (cdata c) = true ->
  (forall i, less O f [k] asc i i = false)
  /\ (forall i j l, less O f [k] asc i j = true -> less O f [k] asc j l = true -> less O f [k] asc i l = true)
  /\ (forall i j l, less O f [k] asc i j = false -> less O f [k] asc j l = false -> less O f [k] asc i l = false).
Proof.
  intros E H. apply less_strict_weak. intros k' [<-|[]]. eauto.
Qed.

(* asymmetry and totality up to ties follow *)
Corollary less_asym O f by_ asc : sort_cols_ok O f by_ ->
  forall i j, less O f by_ asc i j = true -> less O f by_ asc j i = false.
Proof.
  intros H i j L. destruct (less_strict_weak O f by_ asc H) as [Hi [Ht _]].
  destruct (less O f by_ asc j i) eqn:E; auto. rewrite <- (Hi i). symmetry. eapply Ht; eauto.
Qed.

(* boolean form of the precondition *)
Definition sort_cols_okb (O : oracles) (f : frame) (by_ : list str) : bool :=
  forallb (fun k => match fget f k with Some c => col_one_kind O (cdata c) | None => false end) by_.

Lemma sort_cols_okb_spec O f by_ : sort_cols_okb O f by_ = true <-> sort_cols_ok O f by_.
Proof.
  unfold sort_cols_okb, sort_cols_ok. rewrite forallb_forall. split; intros H k Hk; specialize (H k Hk).
  - destruct (fget f k) as [c|]; [|discriminate]. eauto.
  - destruct H as [c [E Hc]]. now rewrite E.
Qed.

(* ------------------------------------------------------------------------- *)
(* 6. the model's output passes the boolean sortedness check                  *)
(* ------------------------------------------------------------------------- *)

Lemma less_ext O f g by_ asc i j i' j' :
  (forall k, In k by_ -> cell_at g k i = cell_at f k i' /\ cell_at g k j = cell_at f k j') ->
  less O g by_ asc i j = less O f by_ asc i' j'.
Proof.
  induction by_ as [|k rest IH]; intros H; [reflexivity|].
  rewrite !less_unfold. destruct (H k (or_introl eq_refl)) as [E1 E2]. rewrite E1, E2.
  rewrite IH; auto. intros k' Hk'. apply H. now right.
Qed.

Lemma cell_at_pick f p k a : rect f = true -> Forall (fun i => (i < nrows f)%nat) p -> (a < length p)%nat ->
  cell_at (map_cols (fun d => pick d p) f) k a = cell_at f k (nth a p O).
Proof.
  intros Hr Hp Ha. unfold cell_at. rewrite fget_map_cols.
  destruct (fget f k) as [c|] eqn:E; cbn [option_map cdata snd]; auto.
  rewrite nth_opt_pick by now rewrite (rect_fget_len f k c Hr E).
  now rewrite (nth_opt_nth p a O Ha).
Qed.

Lemma sorted_by_intro lt n : (forall k, (k < n)%nat -> lt (S k) k = false) -> sorted_by lt n = true.
Proof.
  induction n as [|n IH]; intros H; cbn [sorted_by]; auto.
  rewrite (H n) by lia. cbn [negb andb]. apply IH. intros k Hk. apply H. lia.
Qed.

Lemma sorted_by_elim lt n : sorted_by lt n = true -> forall k, (k < n)%nat -> lt (S k) k = false.
Proof.
  induction n as [|n IH]; intros H k Hk; [lia|]. cbn [sorted_by] in H.
  apply andb_prop in H. destruct H as [H1 H2]. apply negb_true_iff in H1.
  destruct (Nat.eq_dec k n) as [->|N]; auto. apply IH; auto. lia.
Qed.

Lemma pick_incl {A} (d : list A) p x : In x (pick d p) -> In x d.
Proof.
  unfold pick. rewrite in_flat_map. intros [i [_ H]].
  destruct (nth_opt d i) eqn:E; [|destruct H]. destruct H as [<-|[]]. eapply nth_opt_in; eauto.
Qed.

Lemma forallb_incl {A} (p : A -> bool) l l' : (forall x, In x l' -> In x l) -> forallb p l = true -> forallb p l' = true.
Proof. rewrite !forallb_forall. auto. Qed.

(* the precondition carries over to the sorted frame *)
Lemma sort_cols_ok_pick O f by_ p : sort_cols_ok O f by_ -> sort_cols_ok O (map_cols (fun d => pick d p) f) by_.
Proof.
  intros H k Hk. destruct (H k Hk) as [c [E Hc]]. rewrite fget_map_cols, E. cbn [option_map].
  eexists. split; [reflexivity|]. cbn [cdata snd]. unfold col_one_kind in *.
  apply orb_prop in Hc. apply orb_true_iff.
  destruct Hc as [Hc|Hc]; [left|right];
    (apply (forallb_incl _ (cdata c)); [intros x; apply pick_incl | exact Hc]).
Qed.

(* the positions chosen by the model are ordered by Less ... *)
Theorem sort_perm_sorted O f by_ asc : sort_cols_ok O f by_ ->
  StronglySorted (fun a b => less O f by_ asc b a = false) (sort_perm O f by_ asc).
Proof.
  intros H. destruct (less_strict_weak O f by_ asc H) as [Hi [Ht _]].
  apply (isort_sorted (less O f by_ asc) Hi Ht).
Qed.

(* ... hence the frame it returns passes the check that Corr.v evaluates on the real output *)
Theorem sort_model_sorted O f by_ asc g : rect f = true -> sort_cols_ok O f by_ ->
  op_sort O f by_ asc = Ok g -> sorted_by (less O g by_ asc) (nrows g - 1) = true.
Proof.
  intros Hr H Hg. apply op_sort_ok in Hg. subst g. rewrite nrows_sort by exact Hr.
  destruct (less_strict_weak O f by_ asc H) as [Hi [Ht _]].
  apply sorted_by_intro. intros k Hk.
  pose proof (sort_perm_range O f by_ asc) as Hp. pose proof (sort_perm_length O f by_ asc) as Hl.
  rewrite (less_ext O f _ by_ asc (S k) k (nth (S k) (sort_perm O f by_ asc) 0%nat) (nth k (sort_perm O f by_ asc) 0%nat)).
  - apply (isort_adjacent (less O f by_ asc) Hi Ht). rewrite seq_length. lia.
  - intros k' _. split; apply cell_at_pick; auto; lia.
Qed.

(* what the neighbour check means: on one-kind columns it orders every pair of rows *)
Theorem sorted_by_global O g by_ asc n : sort_cols_ok O g by_ ->
  sorted_by (less O g by_ asc) n = true ->
  forall a b, (a < b)%nat -> (b <= n)%nat -> less O g by_ asc b a = false.
Proof.
  intros H Hs. destruct (less_strict_weak O g by_ asc H) as [_ [_ Hn]].
  pose proof (sorted_by_elim _ _ Hs) as Hadj.
  intros a b. induction b as [|b IH]; intros Hab Hb; [lia|].
  destruct (Nat.eq_dec a b) as [->|N].
  - apply Hadj. lia.
  - apply (Hn (S b) b a).
    + apply Hadj. lia.
    + apply IH; lia.
Qed.

(* the whole property for the model *)
Theorem sort_model_spec O f by_ asc g : wf_frame f = true -> sort_cols_ok O f by_ ->
  op_sort O f by_ asc = Ok g ->
  fkeys g = fkeys f /\ wf_frame g = true /\ nrows g = nrows f
  /\ Permutation (rows g) (rows f)
  /\ sorted_by (less O g by_ asc) (nrows g - 1) = true
  /\ (forall a b, (a < b)%nat -> (b < nrows g)%nat -> less O g by_ asc b a = false).
Proof.
  intros Hwf H Hg. pose proof (op_sort_wf O f by_ asc g Hwf Hg) as Hwf'.
  unfold wf_frame in Hwf. apply andb_prop in Hwf. destruct Hwf as [Hwf _].
  apply andb_prop in Hwf. destruct Hwf as [Hr _].
  destruct (op_sort_perm O f by_ asc g Hr Hg) as [Hk [Hr' [Hn Hp]]].
  pose proof (sort_model_sorted O f by_ asc g Hr H Hg) as Hs.
  repeat split; auto.
  intros a b Hab Hb. apply (sorted_by_global O g by_ asc (nrows g - 1)); auto; [|lia].
  pose proof (op_sort_ok O f by_ asc g Hg) as ->. now apply sort_cols_ok_pick.
Qed.

(* ------------------------------------------------------------------------- *)
(* 7. nil cells sort last in both directions                                  *)
(* ------------------------------------------------------------------------- *)

Theorem less_nil_last O f k rest asc i j : cell_at f k i = CNil -> cell_at f k j <> CNil ->
  less O f (k :: rest) asc i j = false /\ less O f (k :: rest) asc j i = true.
Proof.
  intros Hi Hj. rewrite !less_unfold, Hi. cbn [is_nil].
  destruct (cell_at f k j); try congruence; split; reflexivity.
Qed.

(* two nil cells in the first sort column: the next column decides *)
Theorem less_nil_nil O f k rest asc i j : cell_at f k i = CNil -> cell_at f k j = CNil ->
  less O f (k :: rest) asc i j = less O f rest asc i j.
Proof. intros Hi Hj. now rewrite less_unfold, Hi, Hj. Qed.

(* ------------------------------------------------------------------------- *)
(* Examples: nils, ties, two sort columns, both directions                    *)
(* ------------------------------------------------------------------------- *)

Definition O0 : oracles := Build_oracles [] [] [].        (* ParseFloat accepts none of the strings below *)
Definition ka : str := [97]%N.
Definition kb : str := [98]%N.
Definition kc : str := [99]%N.
Definition sx (n : N) : cell := CS [n].
(*   a      b      c
  0  3      "x"    5
  1  nil    "y"    -0
  2  1      "z"    0
  3  3      "a"    -7
  4  1      nil    nil
  5  nil    "b"    +Inf
  6  -2     true   -Inf   *)
Definition f0 : frame :=
  [ (ka, (ka, [CI KInt 3; CNil; CI KInt64 1; CI KInt 3; CI KInt 1; CNil; CI KInt8 (-2)]));
    (kb, (kb, [sx 120; sx 121; sx 122; sx 97; CNil; sx 98; CB true]));
    (kc, (kc, [CF KF64 (FFin 5); CF KF64 FNegZero; CF KF64 (FFin 0); CF KF32 (FFin (-7)); CNil;
               CF KF64 FPInf; CF KF64 FNInf])) ].

(* the hypotheses of the theorems hold of f0 *)
Example f0_hyps :
  wf_frame f0 = true /\ sort_cols_okb O0 f0 [ka; kb] = true /\ sort_cols_okb O0 f0 [kc; ka] = true.
Proof. vm_compute. repeat split. Qed.

(* by a then b, ascending: -2 | 1,"z" | 1,nil | 3,"a" | 3,"x" | nil,"b" | nil,"y" *)
Example sort_ab_asc : op_sort O0 f0 [ka; kb] true = Ok (take_rows f0 [6; 2; 4; 3; 0; 5; 1]%nat).
Proof. vm_compute. reflexivity. Qed.
(* descending: 3,"x" | 3,"a" | 1,"z" | 1,nil | -2 | nil,"y" | nil,"b": nil stays last *)
Example sort_ab_desc : op_sort O0 f0 [ka; kb] false = Ok (take_rows f0 [0; 3; 2; 4; 6; 1; 5]%nat).
Proof. vm_compute. reflexivity. Qed.
(* by c then a: -Inf, -7, then the tie 0 == -0 broken by a (1 before nil), 5, +Inf, nil *)
Example sort_ca_asc : op_sort O0 f0 [kc; ka] true = Ok (take_rows f0 [6; 3; 2; 1; 0; 5; 4]%nat).
Proof. vm_compute. reflexivity. Qed.
Example sort_ca_desc : op_sort O0 f0 [kc; ka] false = Ok (take_rows f0 [5; 0; 2; 1; 3; 6; 4]%nat).
Proof. vm_compute. reflexivity. Qed.
Example sort_ab_asc_col_a :
  match op_sort O0 f0 [ka; kb] true with
  | Ok g => map (cell_at g ka) (seq 0 7)
            = [CI KInt8 (-2); CI KInt64 1; CI KInt 1; CI KInt 3; CI KInt 3; CNil; CNil]
            /\ sort_spec O0 f0 g [ka; kb] true = true
  | _ => False
  end.
Proof. vm_compute. split; reflexivity. Qed.
Example sort_ab_desc_spec :
  match op_sort O0 f0 [ka; kb] false with Ok g => sort_spec O0 f0 g [ka; kb] false = true | _ => False end.
Proof. vm_compute. reflexivity. Qed.

(* a name that is not a column *)
Example sort_missing : op_sort O0 f0 [ka; [100]%N] true = Err.
Proof. vm_compute. reflexivity. Qed.

(* the theorems apply to f0 *)
Example f0_sorted_any_direction asc g : op_sort O0 f0 [ka; kb] asc = Ok g ->
  Permutation (rows g) (rows f0) /\ sorted_by (less O0 g [ka; kb] asc) (nrows g - 1) = true.
Proof.
  intros H.
  assert (W : wf_frame f0 = true) by (vm_compute; reflexivity).
  assert (K : sort_cols_okb O0 f0 [ka; kb] = true) by (vm_compute; reflexivity).
  apply sort_cols_okb_spec in K.
  destruct (sort_model_spec O0 f0 [ka; kb] asc g W K H) as [_ [_ [_ [P [S _]]]]]. now split.
Qed.

(* nil after non-nil whatever the direction: row 1 (a = nil) against row 0 (a = 3) *)
Example f0_nil_last asc : less O0 f0 [ka; kb] asc 1 0 = false /\ less O0 f0 [ka; kb] asc 0 1 = true.
Proof. apply less_nil_last; [reflexivity | discriminate]. Qed.

(* a swap exchanges whole rows *)
Example f0_swap : rows (swap_frame 0 4 f0) = swap_list 0 4 (rows f0)
  /\ rows (swap_frame 0 4 (swap_frame 2 6 f0)) = pick (rows f0) [4; 1; 6; 3; 0; 5; 2]%nat.
Proof. vm_compute. split; reflexivity. Qed.

(* the precondition is needed: a column mixing numbers and text makes Less intransitive
   (10 < "5x" and "5x" < 9 as text, but not 10 < 9 as numbers) ... *)
Definition f_mixed : frame := [ (ka, (ka, [CI KInt 10; CS [53; 120]%N; CI KInt 9])) ].
Example less_mixed_not_transitive :
  less O0 f_mixed [ka] true 0 1 = true /\ less O0 f_mixed [ka] true 1 2 = true
  /\ less O0 f_mixed [ka] true 0 2 = false /\ sort_cols_okb O0 f_mixed [ka] = false.
Proof. vm_compute. repeat split. Qed.
(* ... and so does a NaN (0 ~ NaN ~ 1 but 0 < 1) *)
Definition f_nan : frame := [ (ka, (ka, [CF KF64 (FFin 0); CF KF64 FNaN; CF KF64 (FFin 1)])) ].
Example less_nan_not_weak :
  less O0 f_nan [ka] true 0 1 = false /\ less O0 f_nan [ka] true 1 2 = false
  /\ less O0 f_nan [ka] true 0 2 = true /\ sort_cols_okb O0 f_nan [ka] = false.
Proof. vm_compute. repeat split. Qed.

Print Assumptions isort_perm.
Print Assumptions swaps_keep_rows.
Print Assumptions swaps_keep_rect.
Print Assumptions rows_pick_perm.
Print Assumptions op_sort_perm.
Print Assumptions op_sort_err.
Print Assumptions op_sort_no_panic.
Print Assumptions isort_sorted.
Print Assumptions isort_adjacent.
Print Assumptions adjacent_nth_sorted.
Print Assumptions less_is_row_cmp.
Print Assumptions less_strict_weak.
Print Assumptions less_strict_weak_1.
Print Assumptions sort_model_sorted.
Print Assumptions sorted_by_global.
Print Assumptions sort_model_spec.
Print Assumptions less_nil_last.
