(* Proof_C16.v - aggregations and Add.
   1. Min/Max skip NaN wherever it stands and return the least/greatest number of the column.
   2. Sum/Mean/Min/Max error exactly when some cell (anywhere) is not a float, an int/int64 or a
      string ParseFloat accepts (or the column is empty, except Sum); never a panic.
   3. Describe's count/mean/min/max rows are the Series aggregations on columns both read alike.
   4. The rounding model is the identity on integer sums whose partial sums stay below 2^53.
   5. Add: cell-level case split, result length, fill for rows present in one operand only. *)
From GF Require Import Ops Lemmas.
From Coq Require Import Lia.
Arguments N.eqb : simpl never.

(* ================================================================== *)
(* 1. min / max skip NaN wherever it stands                            *)
(* ================================================================== *)

Lemma fl_lt_irrefl a : fl_lt a a = false.
Proof. destruct a as [| | | |m]; cbn [fl_lt]; auto. apply Z.ltb_irrefl. Qed.

Lemma fl_lt_notnan a b : fl_lt a b = true -> fl_is_nan a = false /\ fl_is_nan b = false.
Proof. destruct a, b; cbn [fl_lt fl_is_nan]; intros H; try discriminate; auto. Qed.

Lemma fl_lt_trans a b c : fl_lt a b = true -> fl_lt b c = true -> fl_lt a c = true.
Proof.
  destruct a as [| | | |x], b as [| | | |y], c as [| | | |z]; cbn [fl_lt]; intros H1 H2;
    try discriminate; auto; rewrite ?Z.ltb_lt in *; lia.
Qed.

Lemma fl_lt_asym a b : fl_lt a b = true -> fl_lt b a = false.
Proof.
  intros H. destruct (fl_lt b a) eqn:E; auto.
  pose proof (fl_lt_trans _ _ _ H E) as T. now rewrite fl_lt_irrefl in T.
Qed.

(* "not less" is transitive on numbers (fails through NaN: 2 !< NaN !< 1 but 1 < 2) *)
Lemma fl_lt_negtrans a b c : fl_is_nan b = false ->
  fl_lt a b = false -> fl_lt b c = false -> fl_lt a c = false.
Proof.
  destruct a as [| | | |x], b as [| | | |y], c as [| | | |z]; cbn [fl_lt fl_is_nan]; intros Hb H1 H2;
    try discriminate; auto; rewrite ?Z.ltb_ge, ?Z.ltb_lt in *; try lia.
Qed.

(* -0 and +0 are the same number for the order *)
Lemma fl_lt_zeros : fl_lt FNegZero (FFin 0) = false /\ fl_lt (FFin 0) FNegZero = false.
Proof. split; reflexivity. Qed.
Lemma fl_lt_negzero_l a : fl_lt FNegZero a = fl_lt (FFin 0) a.
Proof. destruct a as [| | | |m]; reflexivity. Qed.
Lemma fl_lt_negzero_r a : fl_lt a FNegZero = fl_lt a (FFin 0).
Proof. destruct a as [| | | |m]; reflexivity. Qed.

Definition min_step (m v : fl) : fl := if fl_lt v m || fl_is_nan m then v else m.
Definition max_step (m v : fl) : fl := if fl_lt m v || fl_is_nan m then v else m.

(* the loop invariant: the accumulator is one of the values seen; it is NaN only when
   everything seen is NaN; no number seen is below (above) it *)
Definition min_inv (seen : list fl) (acc : fl) : Prop :=
  In acc seen
  /\ (fl_is_nan acc = true -> forall x, In x seen -> fl_is_nan x = true)
  /\ (forall x, In x seen -> fl_is_nan x = false -> fl_lt x acc = false).
Definition max_inv (seen : list fl) (acc : fl) : Prop :=
  In acc seen
  /\ (fl_is_nan acc = true -> forall x, In x seen -> fl_is_nan x = true)
  /\ (forall x, In x seen -> fl_is_nan x = false -> fl_lt acc x = false).

Lemma min_inv_step seen acc v : min_inv seen acc -> min_inv (seen ++ [v]) (min_step acc v).
Proof.
  intros [Hin [Hnan Hle]]. unfold min_step.
  destruct (fl_is_nan acc) eqn:En.
  - rewrite orb_true_r. repeat split.
    + apply in_or_app. right. now left.
    + intros Hv x Hx. apply in_app_or in Hx. destruct Hx as [Hx|[Hx|[]]]; [now apply Hnan | now subst].
    + intros x Hx Hxn. apply in_app_or in Hx. destruct Hx as [Hx|[Hx|[]]].
      * rewrite (Hnan eq_refl x Hx) in Hxn. discriminate.
      * subst. apply fl_lt_irrefl.
  - rewrite orb_false_r. destruct (fl_lt v acc) eqn:El.
    + destruct (fl_lt_notnan _ _ El) as [Hv _]. repeat split.
      * apply in_or_app. right. now left.
      * intros C. rewrite C in Hv. discriminate.
      * intros x Hx Hxn. apply in_app_or in Hx. destruct Hx as [Hx|[Hx|[]]].
        -- destruct (fl_lt x v) eqn:E; auto.
           pose proof (fl_lt_trans _ _ _ E El) as T. rewrite (Hle x Hx Hxn) in T. discriminate.
        -- subst. apply fl_lt_irrefl.
    + repeat split.
      * apply in_or_app. now left.
      * intros C. rewrite C in En. discriminate.
      * intros x Hx Hxn. apply in_app_or in Hx. destruct Hx as [Hx|[Hx|[]]]; [now apply Hle | now subst].
Qed.

Lemma max_inv_step seen acc v : max_inv seen acc -> max_inv (seen ++ [v]) (max_step acc v).
Proof.
  intros [Hin [Hnan Hle]]. unfold max_step.
  destruct (fl_is_nan acc) eqn:En.
  - rewrite orb_true_r. repeat split.
    + apply in_or_app. right. now left.
    + intros Hv x Hx. apply in_app_or in Hx. destruct Hx as [Hx|[Hx|[]]]; [now apply Hnan | now subst].
    + intros x Hx Hxn. apply in_app_or in Hx. destruct Hx as [Hx|[Hx|[]]].
      * rewrite (Hnan eq_refl x Hx) in Hxn. discriminate.
      * subst. apply fl_lt_irrefl.
  - rewrite orb_false_r. destruct (fl_lt acc v) eqn:El.
    + destruct (fl_lt_notnan _ _ El) as [_ Hv]. repeat split.
      * apply in_or_app. right. now left.
      * intros C. rewrite C in Hv. discriminate.
      * intros x Hx Hxn. apply in_app_or in Hx. destruct Hx as [Hx|[Hx|[]]].
        -- destruct (fl_lt v x) eqn:E; auto.
           pose proof (fl_lt_trans _ _ _ El E) as T. rewrite (Hle x Hx Hxn) in T. discriminate.
        -- subst. apply fl_lt_irrefl.
    + repeat split.
      * apply in_or_app. now left.
      * intros C. rewrite C in En. discriminate.
      * intros x Hx Hxn. apply in_app_or in Hx. destruct Hx as [Hx|[Hx|[]]]; [now apply Hle | now subst].
Qed.

Lemma min_inv_fold t : forall seen acc, min_inv seen acc -> min_inv (seen ++ t) (fold_left min_step t acc).
Proof.
  induction t as [|v t IH]; intros seen acc H; cbn [fold_left].
  - now rewrite app_nil_r.
  - replace (seen ++ v :: t) with ((seen ++ [v]) ++ t) by now rewrite <- app_assoc.
    apply IH. now apply min_inv_step.
Qed.
Lemma max_inv_fold t : forall seen acc, max_inv seen acc -> max_inv (seen ++ t) (fold_left max_step t acc).
Proof.
  induction t as [|v t IH]; intros seen acc H; cbn [fold_left].
  - now rewrite app_nil_r.
  - replace (seen ++ v :: t) with ((seen ++ [v]) ++ t) by now rewrite <- app_assoc.
    apply IH. now apply max_inv_step.
Qed.

Lemma min_inv_single x : min_inv [x] x.
Proof.
  repeat split.
  - now left.
  - intros H y [Hy|[]]. now subst.
  - intros y [Hy|[]] _. subst. apply fl_lt_irrefl.
Qed.
Lemma max_inv_single x : max_inv [x] x.
Proof.
  repeat split.
  - now left.
  - intros H y [Hy|[]]. now subst.
  - intros y [Hy|[]] _. subst. apply fl_lt_irrefl.
Qed.

Lemma fl_min_inv l : l <> [] -> min_inv l (fl_min l).
Proof.
  destruct l as [|x t]; [congruence|]. intros _. unfold fl_min.
  change (min_inv ([x] ++ t) (fold_left min_step t x)). apply min_inv_fold, min_inv_single.
Qed.
Lemma fl_max_inv l : l <> [] -> max_inv l (fl_max l).
Proof.
  destruct l as [|x t]; [congruence|]. intros _. unfold fl_max.
  change (max_inv ([x] ++ t) (fold_left max_step t x)). apply max_inv_fold, max_inv_single.
Qed.

Lemma is_nan_true a : fl_is_nan a = true -> a = FNaN.
Proof. destruct a; cbn; congruence. Qed.

(* Min: a NaN anywhere in the column (first, middle, last) is skipped; the result is the
   least number of the column; only an all-NaN column gives NaN *)
Theorem fl_min_ignores_nan l : l <> [] ->
  In (fl_min l) l
  /\ ((exists x, In x l /\ fl_is_nan x = false) ->
        fl_is_nan (fl_min l) = false
        /\ forall x, In x l -> fl_is_nan x = false -> fl_lt x (fl_min l) = false)
  /\ ((forall x, In x l -> fl_is_nan x = true) -> fl_min l = FNaN).
Proof.
  intros Hne. destruct (fl_min_inv l Hne) as [Hin [Hnan Hle]]. split; [exact Hin|]. split.
  - intros [x [Hx Hxn]]. split; [|exact Hle].
    destruct (fl_is_nan (fl_min l)) eqn:E; auto.
    rewrite (Hnan eq_refl x Hx) in Hxn. discriminate.
  - intros Hall. apply is_nan_true. now apply Hall.
Qed.

Theorem fl_max_ignores_nan l : l <> [] ->
  In (fl_max l) l
  /\ ((exists x, In x l /\ fl_is_nan x = false) ->
        fl_is_nan (fl_max l) = false
        /\ forall x, In x l -> fl_is_nan x = false -> fl_lt (fl_max l) x = false)
  /\ ((forall x, In x l -> fl_is_nan x = true) -> fl_max l = FNaN).
Proof.
  intros Hne. destruct (fl_max_inv l Hne) as [Hin [Hnan Hle]]. split; [exact Hin|]. split.
  - intros [x [Hx Hxn]]. split; [|exact Hle].
    destruct (fl_is_nan (fl_max l)) eqn:E; auto.
    rewrite (Hnan eq_refl x Hx) in Hxn. discriminate.
  - intros Hall. apply is_nan_true. now apply Hall.
Qed.

(* the minimum is unique up to the order: any other lower bound taken from the list compares equal *)
Corollary fl_min_least l m : l <> [] -> In m l -> fl_is_nan m = false ->
  (forall x, In x l -> fl_is_nan x = false -> fl_lt x m = false) ->
  fl_lt m (fl_min l) = false /\ fl_lt (fl_min l) m = false.
Proof.
  intros Hne Hm Hmn Hlow. destruct (fl_min_ignores_nan l Hne) as [Hin [H1 _]].
  destruct H1 as [Hn Hle]; [now exists m|]. split; [now apply Hle | now apply Hlow].
Qed.
Corollary fl_max_greatest l m : l <> [] -> In m l -> fl_is_nan m = false ->
  (forall x, In x l -> fl_is_nan x = false -> fl_lt m x = false) ->
  fl_lt m (fl_max l) = false /\ fl_lt (fl_max l) m = false.
Proof.
  intros Hne Hm Hmn Hup. destruct (fl_max_ignores_nan l Hne) as [Hin [H1 _]].
  destruct H1 as [Hn Hle]; [now exists m|]. split; [now apply Hup | now apply Hle].
Qed.

Definition f_of (z : Z) : fl := FFin (Z.shiftl z 1074).
Example fl_min_nan_positions :
  fl_min [FNaN; f_of 3; f_of 1; f_of 2] = f_of 1
  /\ fl_min [f_of 3; FNaN; f_of 1; FNaN; f_of 2] = f_of 1
  /\ fl_min [f_of 3; f_of 1; f_of 2; FNaN] = f_of 1
  /\ fl_min [f_of 1; FNaN] = f_of 1
  /\ fl_min [FNaN; FNaN; FNInf; FNaN] = FNInf
  /\ fl_min [FNaN; FNaN] = FNaN
  /\ fl_max [FNaN; f_of 3; f_of 1; f_of 2] = f_of 3
  /\ fl_max [f_of 1; FNaN; f_of 3; FNaN; f_of 2] = f_of 3
  /\ fl_max [f_of 3; f_of 1; f_of 2; FNaN] = f_of 3
  /\ fl_max [FNaN; FPInf; FNaN] = FPInf
  /\ fl_max [FNaN; FNaN] = FNaN.
Proof. vm_compute. repeat split. Qed.
Example fl_min_nan_hyp :
  let l := [FNaN; f_of 3; FNegZero; FNaN; FFin 0; f_of (-2); FNaN] in
  l <> [] /\ (exists x, In x l /\ fl_is_nan x = false) /\ fl_min l = f_of (-2) /\ fl_max l = f_of 3.
Proof. cbv zeta. split; [discriminate|]. split; [exists FNegZero; split; [cbn; tauto|reflexivity]|]. vm_compute. split; reflexivity. Qed.

(* ================================================================== *)
(* 2. a non-numeric cell anywhere in the column is an error            *)
(* ================================================================== *)

(* the cells Series.AsFloat64 accepts, and the number it reads *)
Definition agg_val (O : oracles) (c : cell) : option fl :=
  match c with
  | CF _ x => Some x
  | CI KInt z | CI KInt64 z => Some (fl_of_Z z)
  | CS s => pf O s
  | _ => None
  end.
Definition agg_numeric (O : oracles) (c : cell) : bool := is_some (agg_val O c).

Lemma agg_numeric_spec O c : agg_numeric O c =
  match c with
  | CF _ _ => true
  | CI KInt _ | CI KInt64 _ => true
  | CS s => is_some (pf O s)
  | _ => false
  end.
Proof. destruct c as [|k z|k x|s|b|t]; try reflexivity. destruct k; reflexivity. Qed.

Lemma as_float64_map O d : as_float64 O d = all_some (map (agg_val O) d).
Proof. reflexivity. Qed.

Lemma all_some_none {A} (l : list (option A)) : all_some l = None <-> In None l.
Proof.
  induction l as [|[x|] l IH]; cbn [all_some In].
  - split; [discriminate | tauto].
  - destruct (all_some l) as [r|].
    + split; [discriminate|]. intros [H|H]; [discriminate|]. apply IH in H. discriminate.
    + split; [intros _; right; now apply IH | reflexivity].
  - split; auto.
Qed.
Lemma all_some_length {A} (l : list (option A)) r : all_some l = Some r -> length r = length l.
Proof.
  revert r; induction l as [|[x|] l IH]; cbn [all_some]; intros r H.
  - inversion H. reflexivity.
  - destruct (all_some l) as [r'|]; [|discriminate]. inversion H. cbn [length]. f_equal. now apply IH.
  - discriminate.
Qed.

Lemma as_float64_none O d :
  as_float64 O d = None <-> exists c, In c d /\ agg_numeric O c = false.
Proof.
  rewrite as_float64_map, all_some_none, in_map_iff. unfold agg_numeric. split.
  - intros [c [E Hc]]. exists c. split; auto. now rewrite E.
  - intros [c [Hc E]]. exists c. split; auto. destruct (agg_val O c); [discriminate | reflexivity].
Qed.
Lemma as_float64_none_b O d :
  as_float64 O d = None <-> forallb (agg_numeric O) d = false.
Proof.
  rewrite as_float64_none. split.
  - intros [c [Hc E]]. destruct (forallb (agg_numeric O) d) eqn:F; auto.
    rewrite forallb_forall in F. rewrite (F c Hc) in E. discriminate.
  - intros F. induction d as [|c d IH]; cbn [forallb] in F; [discriminate|].
    destruct (agg_numeric O c) eqn:E.
    + cbn [andb] in F. destruct (IH F) as [c' [Hc' E']]. exists c'. split; [now right | assumption].
    + exists c. split; [now left | assumption].
Qed.
Lemma as_float64_length O d l : as_float64 O d = Some l -> length l = length d.
Proof. rewrite as_float64_map. intros H. apply all_some_length in H. now rewrite map_length in H. Qed.

Theorem series_agg_err O k d :
  series_agg O k d = Err <-> as_float64 O d = None \/ (d = [] /\ k <> ASum).
Proof.
  unfold series_agg. destruct (as_float64 O d) as [l|] eqn:E.
  - pose proof (as_float64_length _ _ _ E) as HL. split.
    + intros H. right. destruct k; try discriminate;
        (destruct l as [|x l]; cbn [null] in H; [|discriminate]);
        (destruct d; [split; [reflexivity|discriminate] | discriminate]).
    + intros [H|[Hd Hk]]; [discriminate|]. subst d. destruct l; [|discriminate].
      destruct k; try reflexivity. congruence.
  - split; auto.
Qed.

(* spelled out: the error of a non-empty column is exactly "some cell is not a float, not an
   int/int64 and not a string ParseFloat accepts", wherever that cell stands *)
Corollary series_agg_err_cell O k d : d <> [] ->
  (series_agg O k d = Err <-> exists c, In c d /\ agg_numeric O c = false).
Proof.
  intros Hd. rewrite series_agg_err, as_float64_none. split; [|now left].
  intros [H|[H _]]; [assumption | contradiction].
Qed.
Corollary series_agg_err_anywhere O k pre c post :
  agg_numeric O c = false -> series_agg O k (pre ++ c :: post) = Err.
Proof.
  intros H. apply series_agg_err. left. apply as_float64_none. exists c. split; auto.
  apply in_or_app. right. now left.
Qed.

Theorem series_agg_no_panic O k d : series_agg O k d <> Panic.
Proof.
  unfold series_agg. destruct (as_float64 O d) as [l|]; [|discriminate].
  destruct k; try discriminate; destruct (null l); discriminate.
Qed.

(* when it is not an error it is the fold over the numbers read *)
Lemma series_agg_ok O k d l : as_float64 O d = Some l -> d <> [] ->
  series_agg O k d = Ok match k with ASum => fl_sum l | AMean => fl_mean l | AMin => fl_min l | AMax => fl_max l end.
Proof.
  intros E Hd. unfold series_agg. rewrite E. pose proof (as_float64_length _ _ _ E) as HL.
  destruct l as [|x l]; [destruct d; [congruence | discriminate]|]. destruct k; reflexivity.
Qed.

Definition O1 : oracles := Build_oracles [([49%N], Some (FFin (Z.shiftl 1 1074))); ([120%N], None)] [] [].
Example series_agg_err_ex :
  series_agg O1 ASum [CI KInt 1; CS [49%N]; CB true] = Err            (* bool last *)
  /\ series_agg O1 AMin [CNil; CI KInt 1; CF KF64 (f_of 2)] = Err     (* nil first *)
  /\ series_agg O1 AMax [CI KInt 1; CS [120%N]; CI KInt 2] = Err      (* text in the middle *)
  /\ series_agg O1 AMean [CI KInt 1; CI KInt32 2] = Err               (* an int32 is not accepted *)
  /\ series_agg O1 AMean [] = Err /\ series_agg O1 ASum [] = Ok (FFin 0)
  /\ series_agg O1 ASum [CI KInt 1; CS [49%N]; CF KF32 (f_of 2)] = Ok (f_of 4)
  /\ agg_numeric O1 (CB true) = false /\ agg_numeric O1 (CS [120%N]) = false
  /\ agg_numeric O1 (CI KInt32 2) = false /\ agg_numeric O1 (CS [49%N]) = true.
Proof. vm_compute. repeat split. Qed.

(* ================================================================== *)
(* 3. Describe's mean/min/max are the Series aggregations              *)
(* ================================================================== *)

(* on the cells AsFloat64 accepts, toFloat reads the same number *)
Lemma to_float_agrees O c x : agg_val O c = Some x -> to_float O c = Some x.
Proof.
  destruct c as [|k z|k y|s|b|t]; cbn [agg_val to_float]; intros H; try discriminate; auto.
  destruct k; try discriminate; exact H.
Qed.
Lemma to_float_agg_numeric O c : agg_numeric O c = true -> to_float O c = agg_val O c.
Proof.
  unfold agg_numeric. destruct (agg_val O c) as [x|] eqn:E; [|discriminate].
  intros _. now apply to_float_agrees.
Qed.
Lemma to_float_kinds O :
  (forall k x, to_float O (CF k x) = Some x /\ agg_val O (CF k x) = Some x)
  /\ (forall z, to_float O (CI KInt z) = Some (fl_of_Z z) /\ agg_val O (CI KInt z) = Some (fl_of_Z z))
  /\ (forall z, to_float O (CI KInt64 z) = Some (fl_of_Z z) /\ agg_val O (CI KInt64 z) = Some (fl_of_Z z))
  /\ (forall s, to_float O (CS s) = pf O s /\ agg_val O (CS s) = pf O s).
Proof. repeat split. Qed.

Lemma describe_nums_as_float64 O d : forallb (agg_numeric O) d = true ->
  as_float64 O d = Some (describe_nums O d) /\ length (describe_nums O d) = length d.
Proof.
  rewrite as_float64_map. unfold describe_nums.
  induction d as [|c d IH]; cbn [forallb map all_some flat_map length]; intros H; [split; reflexivity|].
  apply andb_prop in H. destruct H as [Hc Hd]. destruct (IH Hd) as [IH1 IH2].
  rewrite (to_float_agg_numeric _ _ Hc). unfold agg_numeric in Hc.
  destruct (agg_val O c) as [x|]; [|discriminate]. rewrite IH1. cbn [app length]. split; [reflexivity | now rewrite IH2].
Qed.

Theorem describe_agrees O d mean mn mx : d <> [] -> forallb (agg_numeric O) d = true ->
  series_agg O AMean d = Ok mean -> series_agg O AMin d = Ok mn -> series_agg O AMax d = Ok mx ->
  describe_col (describe_nums O d) =
    [CF KF64 (fl_of_Z (Z.of_nat (length d))); CF KF64 mean; CF KF64 mn; CF KF64 mx].
Proof.
  intros Hd Hn. destruct (describe_nums_as_float64 _ _ Hn) as [E L].
  rewrite !(series_agg_ok _ _ _ _ E Hd). intros H1 H2 H3. inversion H1; inversion H2; inversion H3.
  unfold describe_col. now rewrite L.
Qed.
(* and the three aggregations do succeed on such a column *)
Theorem describe_agrees_ex O d : d <> [] -> forallb (agg_numeric O) d = true ->
  exists mean mn mx,
    series_agg O AMean d = Ok mean /\ series_agg O AMin d = Ok mn /\ series_agg O AMax d = Ok mx
    /\ describe_col (describe_nums O d) =
       [CF KF64 (fl_of_Z (Z.of_nat (length d))); CF KF64 mean; CF KF64 mn; CF KF64 mx].
Proof.
  intros Hd Hn. destruct (describe_nums_as_float64 _ _ Hn) as [E L].
  exists (fl_mean (describe_nums O d)), (fl_min (describe_nums O d)), (fl_max (describe_nums O d)).
  rewrite !(series_agg_ok _ _ _ _ E Hd). repeat split. unfold describe_col. now rewrite L.
Qed.

(* Outside the hypothesis the two disagree: Describe reads an int32 (and skips text), Series.Mean errors:
   Eval vm_compute in (describe_nums O1 [CI KInt32 2; CB true], series_agg O1 AMean [CI KInt32 2; CB true]).
     = ([FFin (2 * 2^1074)], Err) *)
Example describe_agrees_hyp :
  let d := [CI KInt 4; CS [49%N]; CF KF64 FNaN; CI KInt64 (-3); CF KF32 (f_of 2)] in
  d <> [] /\ forallb (agg_numeric O1) d = true
  /\ series_agg O1 AMean d = Ok FNaN /\ series_agg O1 AMin d = Ok (f_of (-3)) /\ series_agg O1 AMax d = Ok (f_of 4)
  /\ describe_col (describe_nums O1 d) = [CF KF64 (f_of 5); CF KF64 FNaN; CF KF64 (f_of (-3)); CF KF64 (f_of 4)].
Proof. cbv zeta. split; [discriminate|]. vm_compute. repeat split. Qed.
Example describe_disagrees_outside :
  describe_nums O1 [CI KInt32 2; CB true] = [f_of 2] /\ series_agg O1 AMean [CI KInt32 2; CB true] = Err.
Proof. vm_compute. split; reflexivity. Qed.

(* ================================================================== *)
(* 4. the rounding model is the identity where binary64 is exact       *)
(* ================================================================== *)

Lemma p53_pow : p53 = 2 ^ 53.
Proof. reflexivity. Qed.
Lemma fl_max_grid_pow : fl_max_grid = (p53 - 1) * 2 ^ 971 * 2 ^ 1074.
Proof.
  unfold fl_max_grid. rewrite Z.shiftl_mul_pow2 by lia.
  rewrite Z.pow_add_r by lia. now rewrite Z.mul_assoc.
Qed.

Local Opaque p53 fl_max_grid Z.pow Z.shiftl Z.shiftr Z.log2.

(* a positive integer below 2^53 scaled by a power of two that stays in range is a double *)
Lemma round_pos_exact s e : 0 < s < p53 -> 0 <= e -> s * 2 ^ e <= fl_max_grid ->
  round_pos (s * 2 ^ e) 1 = FFin (s * 2 ^ e).
Proof.
  intros Hs He Hmax. unfold round_pos. cbv zeta.
  change (1 =? 1) with true. cbv iota.
  destruct (Z.ltb_spec (s * 2 ^ e) p53) as [Hlt|Hge]; [reflexivity|].
  assert (Hpe : 0 < 2 ^ e) by (apply Z.pow_pos_nonneg; lia).
  rewrite Z.log2_mul_pow2 by lia.
  assert (HL0 : 0 <= Z.log2 s) by apply Z.log2_nonneg.
  assert (HL : Z.log2 s < 53).
  { apply Z.log2_lt_pow2; [lia|]. rewrite <- p53_pow. lia. }
  assert (Hsh : 0 <= e + Z.log2 s - 52).
  { (* otherwise s * 2^e < 2^53 *)
    destruct (Z_lt_ge_dec (e + Z.log2 s - 52) 0) as [C|C]; [|lia]. exfalso.
    assert (Hs' : s < 2 ^ (Z.log2 s + 1)) by (apply Z.log2_spec; lia).
    assert (Hm : s * 2 ^ e < 2 ^ (Z.log2 s + 1) * 2 ^ e) by (apply Z.mul_lt_mono_pos_r; lia).
    rewrite <- Z.pow_add_r in Hm by lia.
    assert (Hp : 2 ^ (Z.log2 s + 1 + e) <= 2 ^ 53) by (apply Z.pow_le_mono_r; lia).
    rewrite p53_pow in Hge. lia. }
  set (sh := e + Z.log2 s - 52) in *.
  set (k := 52 - Z.log2 s).
  assert (Hk : 0 <= k) by (unfold k; lia).
  assert (Hek : e = k + sh) by (unfold k, sh; lia).
  assert (Hpsh : 0 < 2 ^ sh) by (apply Z.pow_pos_nonneg; lia).
  assert (Hnum : s * 2 ^ e = (s * 2 ^ k) * 2 ^ sh).
  { rewrite Hek at 1. rewrite Z.pow_add_r by lia. now rewrite Z.mul_assoc. }
  rewrite Z.shiftr_div_pow2 by lia.
  rewrite !Z.shiftl_mul_pow2 by lia.
  assert (Hq : s * 2 ^ e / 2 ^ sh = s * 2 ^ k) by (rewrite Hnum; apply Z.div_mul; lia).
  rewrite Hq, Z.mul_1_l, <- Hnum, Z.sub_diag.
  change (2 * 0) with 0.
  replace (0 ?= 2 ^ sh) with Lt by (symmetry; apply Z.compare_lt_iff; lia).
  cbv iota. rewrite <- Hnum.
  destruct (Z.ltb_spec fl_max_grid (s * 2 ^ e)) as [C|C]; [lia | reflexivity].
Qed.

Lemma small_in_range s : 0 < s < p53 -> s * 2 ^ 1074 <= fl_max_grid.
Proof.
  intros Hs. rewrite fl_max_grid_pow.
  assert (H1 : 0 < 2 ^ 1074) by (apply Z.pow_pos_nonneg; lia).
  assert (H2 : 1 <= 2 ^ 971) by (change 1 with (2 ^ 0) at 1; apply Z.pow_le_mono_r; lia).
  apply Z.mul_le_mono_nonneg_r; [lia|].
  transitivity ((p53 - 1) * 1); [lia|]. apply Z.mul_le_mono_nonneg_l; lia.
Qed.

Lemma round_q_exact s : Z.abs s < p53 -> s <> 0 ->
  round_q (Z.shiftl s 1074) 1 = FFin (Z.shiftl s 1074).
Proof.
  intros Hs Hnz. rewrite Z.shiftl_mul_pow2 by lia.
  assert (HG : 0 < 2 ^ 1074) by (apply Z.pow_pos_nonneg; lia).
  unfold round_q. destruct (Z.ltb_spec (s * 2 ^ 1074) 0) as [Hneg|Hpos].
  - assert (Hs0 : s < 0) by nia.
    replace (- (s * 2 ^ 1074)) with ((- s) * 2 ^ 1074) by ring.
    rewrite round_pos_exact; [| lia | lia | apply small_in_range; lia].
    assert (Hp : 0 < - s * 2 ^ 1074) by nia.
    destruct (- s * 2 ^ 1074) as [|p|p] eqn:E; try lia.
    cbn [fl_neg]. f_equal. lia.
  - assert (Hs0 : 0 < s) by nia.
    apply round_pos_exact; [lia | lia | apply small_in_range; lia].
Qed.

Lemma shiftl_add a z : Z.shiftl a 1074 + Z.shiftl z 1074 = Z.shiftl (a + z) 1074.
Proof. rewrite !Z.shiftl_mul_pow2 by lia. ring. Qed.

(* one addition of two integer-valued doubles whose sum is below 2^53 is exact *)
Lemma fl_add_exact a z : Z.abs (a + z) < p53 ->
  fl_add (FFin (Z.shiftl a 1074)) (FFin (Z.shiftl z 1074)) = FFin (Z.shiftl (a + z) 1074).
Proof.
  intros H. cbn [fl_add]. rewrite shiftl_add.
  destruct (Z.eqb_spec (Z.shiftl (a + z) 1074) 0) as [E|E].
  - now rewrite E.
  - apply round_q_exact; [assumption|]. intros C. apply E. rewrite C. apply Z.shiftl_0_l.
Qed.

(* every partial sum a, a+z1, a+z1+z2, ... is below 2^53 in absolute value *)
Fixpoint sums_small (a : Z) (zs : list Z) : bool :=
  (Z.abs a <? p53) && match zs with [] => true | z :: t => sums_small (a + z) t end.

Lemma fold_add_exact zs : forall a, sums_small a zs = true ->
  fold_left fl_add (map (fun z => FFin (Z.shiftl z 1074)) zs) (FFin (Z.shiftl a 1074))
  = FFin (Z.shiftl (fold_left Z.add zs a) 1074).
Proof.
  induction zs as [|z t IH]; intros a H; cbn [map fold_left]; [reflexivity|].
  cbn [sums_small] in H. apply andb_prop in H. destruct H as [_ H].
  assert (H' : Z.abs (a + z) < p53).
  { destruct t; cbn [sums_small] in H; apply andb_prop in H; destruct H as [H _]; now apply Z.ltb_lt. }
  rewrite fl_add_exact by assumption. now apply IH.
Qed.

Theorem fl_sum_exact_small zs : sums_small 0 zs = true ->
  fl_sum (map (fun z => FFin (Z.shiftl z 1074)) zs) = FFin (Z.shiftl (fold_left Z.add zs 0) 1074).
Proof.
  intros H. unfold fl_sum. change (FFin 0) with (FFin (Z.shiftl 0 1074)) at 1.
  now apply fold_add_exact.
Qed.

Local Transparent p53 fl_max_grid Z.pow Z.shiftl Z.shiftr Z.log2.

(* in terms of float64(n): summing a column of Go ints whose running totals stay below 2^53 *)
Lemma fl_of_Z_small z : Z.abs z < p53 -> fl_of_Z z = FFin (Z.shiftl z 1074).
Proof. intros H. unfold fl_of_Z. apply Z.ltb_lt in H. now rewrite H. Qed.

Lemma sums_small_last zs : forall a, sums_small a zs = true -> Z.abs (fold_left Z.add zs a) < p53.
Proof.
  induction zs as [|z t IH]; intros a H; cbn [sums_small fold_left] in *; apply andb_prop in H; destruct H as [H1 H2].
  - now apply Z.ltb_lt.
  - now apply IH.
Qed.

Corollary fl_sum_of_ints zs : sums_small 0 zs = true -> forallb (fun z => Z.abs z <? p53) zs = true ->
  fl_sum (map fl_of_Z zs) = fl_of_Z (fold_left Z.add zs 0).
Proof.
  intros H Hz. rewrite (fl_of_Z_small (fold_left Z.add zs 0)) by now apply sums_small_last.
  rewrite <- fl_sum_exact_small by assumption. f_equal. apply map_ext_in.
  intros z Hin. rewrite forallb_forall in Hz. apply fl_of_Z_small, Z.ltb_lt, Hz, Hin.
Qed.
Corollary series_sum_of_ints O zs : sums_small 0 zs = true -> forallb (fun z => Z.abs z <? p53) zs = true ->
  series_agg O ASum (map (CI KInt) zs) = Ok (fl_of_Z (fold_left Z.add zs 0)).
Proof.
  intros H Hz. unfold series_agg.
  assert (E : as_float64 O (map (CI KInt) zs) = Some (map fl_of_Z zs)).
  { rewrite as_float64_map, map_map. cbn [agg_val]. clear. induction zs as [|z t IH]; cbn [map all_some]; [reflexivity|].
    now rewrite IH. }
  rewrite E. now rewrite fl_sum_of_ints.
Qed.

Example fl_sum_exact_ex :
  let zs := [3; -3; 2 ^ 52; 2 ^ 52 - 1; -5; - 2 ^ 53] in
  sums_small 0 zs = true
  /\ fl_sum (map (fun z => FFin (Z.shiftl z 1074)) zs) = FFin (Z.shiftl (-6) 1074).
Proof. cbv zeta. split; vm_compute; reflexivity. Qed.
(* outside the hypothesis a sum does round: 2^53 + 1 is not a double, ties-to-even gives 2^53;
   2^53 + 3 gives 2^53 + 4 *)
Example fl_sum_rounds_outside :
  sums_small 0 [2 ^ 53; 1] = false
  /\ fl_sum (map (fun z => FFin (Z.shiftl z 1074)) [2 ^ 53; 1]) = FFin (Z.shiftl (2 ^ 53) 1074)
  /\ fl_sum (map (fun z => FFin (Z.shiftl z 1074)) [2 ^ 53; 3]) = FFin (Z.shiftl (2 ^ 53 + 4) 1074).
Proof. vm_compute. repeat split. Qed.

(* ================================================================== *)
(* 5. Add                                                              *)
(* ================================================================== *)

(* two numbers add as float64 *)
Lemma add_cell_num O a b x y : to_float O a = Some x -> to_float O b = Some y ->
  add_cell O a b = Ok (CF KF64 (fl_add x y)).
Proof. intros Ha Hb. unfold add_cell. now rewrite Ha, Hb. Qed.

(* two strings of which at least one is not a number give nil *)
Lemma add_cell_text O s t : pf O s = None \/ pf O t = None -> add_cell O (CS s) (CS t) = Ok CNil.
Proof.
  intros H. unfold add_cell. cbn [to_float same_type].
  destruct (pf O s) as [x|]; destruct (pf O t) as [y|]; try reflexivity.
  destruct H; discriminate.
Qed.

(* different dynamic types, one side not a number: nil *)
Lemma add_cell_mixed O a b : same_type a b = false -> to_float O a = None \/ to_float O b = None ->
  add_cell O a b = Ok CNil.
Proof.
  intros Ht H. unfold add_cell. rewrite Ht.
  destruct (to_float O a) as [x|]; destruct (to_float O b) as [y|]; try reflexivity.
  destruct H; discriminate.
Qed.

(* same dynamic type that is neither number nor string: an error *)
Lemma add_cell_same_err O a b : same_type a b = true -> to_float O a = None \/ to_float O b = None ->
  (forall s, a <> CS s) -> add_cell O a b = Err.
Proof.
  intros Ht H Hs. unfold add_cell. rewrite Ht.
  assert (E : match a with CS _ => Ok CNil | _ => @Err cell end = Err).
  { destruct a; try reflexivity. exfalso. now apply (Hs s). }
  destruct (to_float O a) as [x|]; destruct (to_float O b) as [y|]; try exact E.
  destruct H; discriminate.
Qed.
Lemma add_cell_err_kinds O :
  add_cell O CNil CNil = Err
  /\ (forall x y, add_cell O (CB x) (CB y) = Err)
  /\ (forall x y, add_cell O (CT x) (CT y) = Err).
Proof. repeat split. Qed.

(* the complete case split, and its converse for Err *)
Theorem add_cell_cases O a b :
  (exists x y, to_float O a = Some x /\ to_float O b = Some y /\ add_cell O a b = Ok (CF KF64 (fl_add x y)))
  \/ ((to_float O a = None \/ to_float O b = None) /\
      ((same_type a b = false /\ add_cell O a b = Ok CNil)
       \/ (exists s t, a = CS s /\ b = CS t /\ add_cell O a b = Ok CNil)
       \/ (same_type a b = true /\ (forall s, a <> CS s) /\ add_cell O a b = Err))).
Proof.
  destruct (to_float O a) as [x|] eqn:Ea; [destruct (to_float O b) as [y|] eqn:Eb|].
  - left. exists x, y. repeat split. now apply add_cell_num.
  - right. split; [now right|]. destruct (same_type a b) eqn:Et.
    + destruct a as [|k z|k x'|s|b'|t]; destruct b as [|k2 z2|k2 x2|s2|b2|t2]; try discriminate.
      right. left. exists s, s2. repeat split. apply add_cell_text. now right.
    + left. split; auto. apply add_cell_mixed; auto.
  - right. split; [now left|]. destruct (same_type a b) eqn:Et.
    + destruct a as [|k z|k x'|s|b'|t]; try discriminate.
      * right. right. repeat split; try discriminate. apply add_cell_same_err; auto. discriminate.
      * destruct b as [|k2 z2|k2 x2|s2|b2|t2]; try discriminate.
        right. left. exists s, s2. repeat split. apply add_cell_text. now left.
      * right. right. repeat split; try discriminate. apply add_cell_same_err; auto. discriminate.
      * right. right. repeat split; try discriminate. apply add_cell_same_err; auto. discriminate.
    + left. split; auto. apply add_cell_mixed; auto.
Qed.
Corollary add_cell_err_iff O a b :
  add_cell O a b = Err <->
  (to_float O a = None \/ to_float O b = None) /\ same_type a b = true /\ (forall s, a <> CS s).
Proof.
  split.
  - intros H. destruct (add_cell_cases O a b) as [[x [y [_ [_ E]]]]|[Hn [[_ E]|[[s [t [_ [_ E]]]]|[Ht [Hs _]]]]]];
      try (rewrite E in H; discriminate). auto.
  - intros [Hn [Ht Hs]]. now apply add_cell_same_err.
Qed.
Lemma add_cell_no_panic O a b : add_cell O a b <> Panic.
Proof.
  destruct (add_cell_cases O a b) as [[x [y [_ [_ E]]]]|[Hn [[_ E]|[[s [t [_ [_ E]]]]|[_ [_ E]]]]]];
    rewrite E; discriminate.
Qed.

(* the result has as many rows as the longer operand *)
Theorem add_cols_length O fill a : forall b d,
  add_cols O fill a b = Ok d -> length d = Nat.max (length a) (length b).
Proof.
  induction a as [|x a IH]; intros [|y b] d H; cbn [add_cols] in H.
  - injection H as <-. reflexivity.
  - injection H as <-. cbn [length]. rewrite repeat_length. reflexivity.
  - injection H as <-. cbn [length]. rewrite repeat_length. reflexivity.
  - destruct (add_cell O x y) as [c| |]; cbn [bind] in H; try discriminate.
    destruct (add_cols O fill a b) as [r| |] eqn:E; cbn [bind] in H; try discriminate.
    injection H as <-. cbn [length]. rewrite (IH b r E). reflexivity.
Qed.

(* rows present in one operand only get the fill value *)
Theorem add_cols_tail O fill extra a : forall b, length a = length b ->
  add_cols O fill (a ++ extra) b = do r <- add_cols O fill a b; Ok (r ++ repeat fill (length extra)).
Proof.
  induction a as [|x a IH]; intros [|y b] HL; cbn [length] in HL; try discriminate.
  - cbn [app add_cols bind]. destruct extra; reflexivity.
  - cbn [app add_cols]. destruct (add_cell O x y) as [c| |]; cbn [bind]; try reflexivity.
    rewrite IH by lia. destruct (add_cols O fill a b) as [r| |]; reflexivity.
Qed.
Theorem add_cols_tail_r O fill extra a : forall b, length a = length b ->
  add_cols O fill a (b ++ extra) = do r <- add_cols O fill a b; Ok (r ++ repeat fill (length extra)).
Proof.
  induction a as [|x a IH]; intros [|y b] HL; cbn [length] in HL; try discriminate.
  - cbn [app add_cols bind]. destruct extra; reflexivity.
  - cbn [app add_cols]. destruct (add_cell O x y) as [c| |]; cbn [bind]; try reflexivity.
    rewrite IH by lia. destruct (add_cols O fill a b) as [r| |]; reflexivity.
Qed.

(* on the common rows the result is add_cell, row by row *)
Lemma add_cols_nth O fill a : forall b d i, add_cols O fill a b = Ok d ->
  (i < length a)%nat -> (i < length b)%nat ->
  add_cell O (nth i a CNil) (nth i b CNil) = Ok (nth i d CNil).
Proof.
  induction a as [|x a IH]; intros [|y b] d i H Ha Hb; cbn [length] in *; try lia.
  cbn [add_cols] in H. destruct (add_cell O x y) as [c| |] eqn:Ec; cbn [bind] in H; try discriminate.
  destruct (add_cols O fill a b) as [r| |] eqn:E; cbn [bind] in H; try discriminate.
  inversion H. destruct i as [|i]; cbn [nth]; [assumption|]. apply (IH b r i E); lia.
Qed.
Lemma add_cols_no_panic O fill a : forall b, add_cols O fill a b <> Panic.
Proof.
  induction a as [|x a IH]; intros [|y b]; cbn [add_cols]; try discriminate.
  pose proof (add_cell_no_panic O x y) as Hc. destruct (add_cell O x y) as [c| |]; cbn [bind]; try discriminate; try congruence.
  specialize (IH b). destruct (add_cols O fill a b) as [r| |]; cbn [bind]; try discriminate. congruence.
Qed.

Example add_ex :
  let one := CS [49%N] in let x := CS [120%N] in
  add_cols O1 (CI KInt 0) [CI KInt 1; one; x; CB true; CB true; CNil; CI KInt8 2; CF KF64 FNaN] [CF KF32 (f_of 2); one; one; CI KInt 1; CB false]
    = Err                                                      (* row 4: bool + bool *)
  /\ add_cols O1 (CI KInt 0) [CI KInt 1; one; x; CB true; x; CI KInt8 2; CF KF64 FNaN] [CF KF32 (f_of 2); one; one; CI KInt 1; x]
    = Ok [CF KF64 (f_of 3); CF KF64 (f_of 2); CNil; CNil; CNil; CI KInt 0; CI KInt 0]
  /\ add_cols O1 (CI KInt 0) [CI KInt 1] [CI KInt 1; x; CNil] = Ok [CF KF64 (f_of 2); CI KInt 0; CI KInt 0]
  /\ add_cell O1 (CT [1]) (CT [2]) = Err /\ add_cell O1 CNil CNil = Err /\ add_cell O1 CNil (CB true) = Ok CNil
  /\ add_cell O1 (CI KInt 1) (CB true) = Ok CNil /\ add_cell O1 x one = Ok CNil.
Proof. vm_compute. repeat split. Qed.

Example add_cols_tail_ex :
  let a := [CI KInt 1; CB true] in let b := [CI KInt 2; CI KInt 3] in let extra := [CS [120%N]; CNil] in
  length a = length b /\ extra <> []
  /\ add_cols O1 (CI KInt 7) (a ++ extra) b = Ok [CF KF64 (f_of 3); CNil; CI KInt 7; CI KInt 7]
  /\ add_cols O1 (CI KInt 7) b (a ++ extra) = Ok [CF KF64 (f_of 3); CNil; CI KInt 7; CI KInt 7].
Proof. cbv zeta. split; [reflexivity|]. split; [discriminate|]. vm_compute. split; reflexivity. Qed.

Print Assumptions fl_min_ignores_nan.
Print Assumptions fl_max_ignores_nan.
Print Assumptions series_agg_err.
Print Assumptions as_float64_none.
Print Assumptions series_agg_no_panic.
Print Assumptions describe_agrees.
Print Assumptions describe_agrees_ex.
Print Assumptions fl_sum_exact_small.
Print Assumptions series_sum_of_ints.
Print Assumptions add_cell_cases.
Print Assumptions add_cols_length.
Print Assumptions add_cols_tail.
Print Assumptions add_cols_tail_r.
