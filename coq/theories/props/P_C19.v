(* P_C19.v - property C19: Shift moves every column by the same offset and pads with nil.
   Statements only; each is closed by the lemma that proves it. *)
From GF Require Import Ops Lemmas Proof_C19.

(* row i of every column holds what row i-p held in the source, nil outside the frame -
   for every int64 offset, although the code computes i-p with wrap-around *)
Theorem C19_shift_spec : forall p d i,
  in_i64 p -> Z.of_nat (length d) < two63 -> (i < length d)%nat ->
  nth i (shift_col p d) CNil =
  if (0 <=? Z.of_nat i - p) && (Z.of_nat i - p <? Z.of_nat (length d))
  then nth (Z.to_nat (Z.of_nat i - p)) d CNil else CNil.
Proof. exact shift_col_nth. Qed.
Print Assumptions C19_shift_spec.

Theorem C19_shift_shape : forall f p,
  fkeys (op_shift f p) = fkeys f
  /\ names_ok (op_shift f p) = true
  /\ (rect f = true -> rect (op_shift f p) = true)
  /\ map (fun kc => cdata (snd kc)) (op_shift f p) = map (fun kc => shift_col p (cdata (snd kc))) f.
Proof. intros f p. repeat split; [apply op_shift_keys | apply op_shift_names_ok | apply op_shift_rect | apply op_shift_cols]. Qed.
Print Assumptions C19_shift_shape.

Theorem C19_shift_zero : forall d, Z.of_nat (length d) < two63 -> shift_col 0 d = d.
Proof. exact shift_col_zero. Qed.
Print Assumptions C19_shift_zero.

(* shifting by p and then by -p restores every row that was not pushed off an end *)
Theorem C19_shift_roundtrip : forall p d i,
  in_i64 p -> in_i64 (- p) -> Z.of_nat (length d) < two63 ->
  (i < length d)%nat -> 0 <= Z.of_nat i + p < Z.of_nat (length d) ->
  nth i (shift_col (-p) (shift_col p d)) CNil = nth i d CNil.
Proof. exact shift_col_roundtrip. Qed.
Print Assumptions C19_shift_roundtrip.
