(* Proof_C17.v - Apply: the result does not depend on the order in which the workers
   finish.  The collector of the Go code (results arrive on a channel in any order and
   are written at their own row index into pre-allocated columns) computes, for every
   completion order, exactly the columns of the sequential model op_apply_row; the
   function is applied once per row (row-wise) / once per column (column-wise). *)
From GF Require Import Ops Lemmas.
From Coq Require Import Lia Permutation.

(* ------------------------------------------------------------------ *)
(* 1. the collector (DESIGN.md A.6), on the model's cells              *)
(* ------------------------------------------------------------------ *)

(* finalResults: one cell list per column (sorted column order); a row result writes
   cell j into column j at index i.  set_nth is Base.set_nth (same definition as A.6). *)
Fixpoint write_row (st : list (list cell)) (i : nat) (vals : list cell) : list (list cell) :=
  match st, vals with
  | c :: st', v :: vals' => set_nth c i v :: write_row st' i vals'
  | _, _ => st
  end.
Definition result := (nat * list cell)%type.   (* rowResult{index, data} *)
Definition collect (st : list (list cell)) (rs : list result) : list (list cell) :=
  fold_left (fun s r => write_row s (fst r) (snd r)) rs st.

Lemma set_nth_comm {A} (l : list A) i j a b : i <> j ->
  set_nth (set_nth l i a) j b = set_nth (set_nth l j b) i a.
Proof.
  revert i j. induction l as [|h t IH]; intros [|i] [|j] H; cbn; try reflexivity; try congruence.
  f_equal. apply IH. congruence.
Qed.
Lemma write_row_comm st i j a b : i <> j ->
  write_row (write_row st i a) j b = write_row (write_row st j b) i a.
Proof.
  intros H. revert a b. induction st as [|c st IH]; intros a b.
  - destruct a, b; reflexivity.
  - destruct a as [|x a], b as [|y b]; cbn; try reflexivity.
    f_equal; [apply set_nth_comm; assumption | apply IH].
Qed.

(* every completion order: any permutation of the per-row results gives the same columns *)
Theorem collect_schedule_independent : forall rs rs' st,
  Permutation rs rs' -> NoDup (map fst rs) -> collect st rs = collect st rs'.
Proof.
  intros rs rs' st P. revert st.
  induction P as [| x l l' P IH | x y l | l l' l'' P1 IH1 P2 IH2]; intros st ND.
  - reflexivity.
  - cbn. apply IH. now inversion ND.
  - cbn. inversion ND as [|? ? Hy ND']; subst. f_equal. apply write_row_comm.
    intro E. apply Hy. cbn. left. congruence.
  - rewrite IH1 by assumption. apply IH2.
    eapply Permutation_NoDup; [apply Permutation_map; exact P1 | exact ND].
Qed.

(* ------------------------------------------------------------------ *)
(* 2. the collector fed in row order computes the model's transpose    *)
(* ------------------------------------------------------------------ *)

Definition hdc (r : list cell) : cell := match r with c :: _ => c | [] => CNil end.
Definition tl_res (r : result) : result := (fst r, tl (snd r)).

Lemma collect_nil rs : collect [] rs = [].
Proof. induction rs as [|r rs IH]; cbn; auto. Qed.

(* the collector works column by column: column 0 receives the heads, the remaining
   columns receive the tails *)
Lemma collect_cons c st rs : Forall (fun r => snd r <> []) rs ->
  collect (c :: st) rs =
  fold_left (fun col r => set_nth col (fst r) (hdc (snd r))) rs c :: collect st (map tl_res rs).
Proof.
  revert c st. induction rs as [|[i v] rs IH]; intros c st H; cbn; [reflexivity|].
  inversion H as [|? ? Hv Hrs]; subst. cbn in Hv.
  destruct v as [|x v]; [congruence|]. cbn.
  unfold collect in IH. rewrite IH by assumption. reflexivity.
Qed.

Lemma set_nth_app {A} (pre : list A) x suf v :
  set_nth (pre ++ x :: suf) (length pre) v = pre ++ v :: suf.
Proof. induction pre as [|p pre IH]; cbn; auto. now rewrite IH. Qed.

(* one column: writing value k at index k for k = 0..n-1 fills the column in order *)
Lemma fill_column (g : list cell -> cell) res : forall pre,
  fold_left (fun col r => set_nth col (fst r) (g (snd r)))
            (combine (seq (length pre) (length res)) res) (pre ++ repeat CNil (length res))
  = pre ++ map g res.
Proof.
  induction res as [|r res IH]; intros pre; cbn [length seq combine fold_left map repeat].
  - reflexivity.
  - cbn [fst snd]. rewrite set_nth_app.
    replace (pre ++ g r :: repeat CNil (length res)) with ((pre ++ [g r]) ++ repeat CNil (length res))
      by (rewrite <- app_assoc; reflexivity).
    replace (S (length pre)) with (length (pre ++ [g r])) by (rewrite app_length; cbn; lia).
    rewrite IH. rewrite <- app_assoc. reflexivity.
Qed.

Lemma map_tl_res_combine idx res :
  map tl_res (combine idx res) = combine idx (map (@tl cell) res).
Proof.
  revert res. induction idx as [|i idx IH]; intros [|r res]; cbn; auto.
  unfold tl_res at 1. cbn. now rewrite IH.
Qed.

Definition init_cols (nc n : nat) : list (list cell) := repeat (repeat CNil n) nc.
Definition tagged (res : list (list cell)) : list result := combine (seq 0 (length res)) res.
Definition width (nc : nat) (res : list (list cell)) : Prop := Forall (fun r => length r = nc) res.

Lemma transpose_hd nc rws :
  transpose (S nc) rws = map hdc rws :: transpose nc (map (@tl cell) rws).
Proof. reflexivity. Qed.

Theorem collect_sequential nc res : width nc res ->
  collect (init_cols nc (length res)) (tagged res) = transpose nc res.
Proof.
  unfold tagged. revert res. induction nc as [|nc IH]; intros res W.
  - cbn. apply collect_nil.
  - rewrite transpose_hd. unfold init_cols. cbn [repeat].
    rewrite collect_cons.
    + f_equal.
      * apply (fill_column hdc res []).
      * rewrite map_tl_res_combine.
        specialize (IH (map (@tl cell) res)). rewrite map_length in IH. apply IH.
        unfold width in *. rewrite Forall_forall in *. intros r Hr.
        apply in_map_iff in Hr. destruct Hr as [r0 [E Hr0]]. subst r.
        specialize (W _ Hr0). destruct r0; cbn in *; lia.
    + rewrite Forall_forall. intros [i r] Hin. apply in_combine_r in Hin. cbn.
      unfold width in W. rewrite Forall_forall in W. specialize (W _ Hin).
      destruct r; cbn in W; [lia|discriminate].
Qed.

Lemma map_fst_combine_seq {A} (l : list A) k : map fst (combine (seq k (length l)) l) = seq k (length l).
Proof. revert k. induction l as [|x l IH]; intros k; cbn; auto. now rewrite IH. Qed.

Lemma tagged_nodup res : NoDup (map fst (tagged res)).
Proof. unfold tagged. rewrite map_fst_combine_seq. apply seq_NoDup. Qed.

(* for ALL completion orders (any interleaving of any number of workers): the collector's
   columns are the columns of the sequential model *)
Theorem C17_any_schedule nc res : width nc res ->
  forall sched, Permutation sched (tagged res) ->
  collect (init_cols nc (length res)) sched = transpose nc res.
Proof.
  intros W sched P. rewrite <- (collect_sequential nc res W).
  symmetry. apply collect_schedule_independent.
  - apply Permutation_sym. exact P.
  - apply tagged_nodup.
Qed.

(* ------------------------------------------------------------------ *)
(* 3. row-wise Apply: once per row, on that row's cells in column order *)
(* ------------------------------------------------------------------ *)

(* total version of apply_row_cells: what a row result contributes, one cell per column *)
Definition row_cells (nc : nat) (a : aresult) : list cell :=
  match a with
  | RAny l => firstn nc l
  | RSingle c => repeat c nc
  | _ => repeat CNil nc
  end.

Lemma all_some_map_length {A B} (g : A -> option B) l rs :
  all_some (map g l) = Some rs -> length rs = length l.
Proof.
  revert rs. induction l as [|x l IH]; intros rs H; cbn in H.
  - inversion H. reflexivity.
  - destruct (g x); [|discriminate]. destruct (all_some (map g l)) eqn:E; [|discriminate].
    inversion H; subst. cbn. f_equal. now apply IH.
Qed.
Lemma all_some_map_flat {A B} (g : A -> option B) l rs :
  all_some (map g l) = Some rs ->
  flat_map (fun i => match g i with Some r => [r] | None => [] end) l = rs.
Proof.
  revert rs. induction l as [|x l IH]; intros rs H; cbn in H |- *.
  - now inversion H.
  - destruct (g x); [|discriminate]. destruct (all_some (map g l)) eqn:E; [|discriminate].
    inversion H; subst. cbn. f_equal. now apply IH.
Qed.
Lemma all_some_map_in {A B} (g : A -> option B) l rs r :
  all_some (map g l) = Some rs -> In r rs -> exists x, In x l /\ g x = Some r.
Proof.
  revert rs. induction l as [|x l IH]; intros rs H Hin; cbn in H.
  - inversion H; subst. destruct Hin.
  - destruct (g x) eqn:Ex; [|discriminate]. destruct (all_some (map g l)) eqn:E; [|discriminate].
    inversion H; subst. destruct Hin as [Hin|Hin].
    + subst. exists x. split; [now left|assumption].
    + destruct (IH _ eq_refl Hin) as [y [Hy Ey]]. exists y. split; [now right|assumption].
Qed.

(* the rows the function sees are exactly rows f, in order *)
Lemma all_rows_are_rows f rs :
  all_some (map (frow f) (seq 0 (nrows f))) = Some rs -> rs = rows f.
Proof. intros H. unfold rows. symmetry. now apply all_some_map_flat. Qed.

(* a row has one cell per column *)
Lemma frow_length f i r : frow f i = Some r -> length r = ncols f.
Proof.
  unfold frow. destruct (Nat.ltb i (nrows f)); [|discriminate]. intros H.
  apply all_some_map_length in H. exact H.
Qed.
Lemma rows_length f r : In r (rows f) -> length r = ncols f.
Proof.
  unfold rows. intros H. apply in_flat_map in H. destruct H as [i [_ H]].
  destruct (frow f i) eqn:E; [|destruct H]. destruct H as [H|[]]. subst. eapply frow_length; eauto.
Qed.
Lemma row_exists n i (f : frame) :
  (forall kc, In kc f -> length (cdata (snd kc)) = n) -> (i < n)%nat ->
  exists r, all_some (map (fun kc : str * col =>
              option_map (pair (fst kc)) (nth_opt (cdata (snd kc)) i)) f) = Some r.
Proof.
  intros R Hn. induction f as [|[k c] f IHf]; cbn.
  - eexists; reflexivity.
  - assert (Hk : length (cdata c) = n) by (apply (R (k, c)); now left).
    rewrite (nth_opt_nth (cdata c) i CNil) by lia. cbn.
    destruct IHf as [r Er]; [intros; apply R; now right|]. rewrite Er. eexists; reflexivity.
Qed.
(* on a rectangular frame every position below nrows has a row *)
Lemma rect_all_rows f : rect f = true ->
  exists rs, all_some (map (frow f) (seq 0 (nrows f))) = Some rs.
Proof.
  intros R.
  assert (H : forall l, (forall i, In i l -> (i < nrows f)%nat) ->
                        exists rs, all_some (map (frow f) l) = Some rs).
  { induction l as [|i l IH]; intros Hl; cbn.
    - eexists; reflexivity.
    - destruct IH as [rs E]; [intros; apply Hl; now right|]. rewrite E.
      assert (Hi : (i < nrows f)%nat) by (apply Hl; now left).
      unfold frow. apply Nat.ltb_lt in Hi. rewrite Hi.
      destruct (row_exists (nrows f) i f) as [r Er].
      { unfold rect in R. rewrite forallb_forall in R. intros kc Hkc. apply Nat.eqb_eq. now apply R. }
      { now apply Nat.ltb_lt. }
      rewrite Er. eexists; reflexivity. }
  apply H. intros i Hi. apply in_seq in Hi. lia.
Qed.

Lemma out_all_map_ok {A B} (h : A -> out B) (h' : A -> B) l res :
  (forall x y, In x l -> h x = Ok y -> y = h' x) ->
  out_all (map h l) = Ok res -> res = map h' l.
Proof.
  revert res. induction l as [|x l IH]; intros res Hh H; cbn in H.
  - inversion H. reflexivity.
  - destruct (h x) eqn:Ex; cbn in H; try discriminate.
    destruct (out_all (map h l)) eqn:El; cbn in H; try discriminate.
    inversion H; subst. cbn. f_equal.
    + apply Hh; [now left|assumption].
    + apply IH; auto. intros; apply Hh; auto. now right.
Qed.

Lemma apply_row_cells_ok id nc x y : apply_row_cells id nc x = Ok y -> y = row_cells nc (apply_fn id x).
Proof.
  unfold apply_row_cells, row_cells. destruct (apply_fn id x); try (intros H; now inversion H).
  destruct (Nat.leb nc (length l)); intros H; now inversion H.
Qed.

(* a successful row result has exactly one cell per column, whatever the function *)
Lemma apply_row_cells_length id nc x y : apply_row_cells id nc x = Ok y -> length y = nc.
Proof.
  unfold apply_row_cells. destruct (apply_fn id x) as [l|l|l|l|c|];
    try (intros H; inversion H; apply repeat_length).
  destruct (Nat.leb nc (length l)) eqn:E; intros H; inversion H.
  apply Nat.leb_le in E. apply firstn_length_le. exact E.
Qed.
(* a row result that is too short is an error (it used to be an index panic) *)
Lemma apply_row_cells_short id nc x l : apply_fn id x = RAny l -> (length l < nc)%nat ->
  apply_row_cells id nc x = Err.
Proof.
  intros E Hl. unfold apply_row_cells. rewrite E.
  apply Nat.leb_gt in Hl. rewrite Hl. reflexivity.
Qed.
Lemma apply_row_cells_no_panic id nc x : apply_row_cells id nc x <> Panic.
Proof.
  unfold apply_row_cells. destruct (apply_fn id x); try discriminate.
  destruct (Nat.leb nc (length l)); discriminate.
Qed.

Lemma div2_le n : (Nat.div2 n <= n)%nat.
Proof. pose proof (Nat.div2_odd n) as H. lia. Qed.

(* case analysis on a function id of the menu: ids 0 .. 15 one by one and a last case
   S^16 id (the default branch of apply_fn).  The menu currently ends at 14; the spare
   level falls into the default branch and is closed by the same tactics, so the menu can
   grow a little without the case analyses below having to be re-nested. *)
Ltac menu_cases id := do 16 (try (destruct id as [|id]; [|])).
(* a function of the menu may look at its argument before it decides what to return (id 14:
   `match x with CNil :: _ => RNilRes | _ => RAny (rev x) end`); split the argument into the
   shapes such a match distinguishes (empty / first cell by constructor) wherever the goal or
   a hypothesis still contains a match on it, so that the match reduces; the remaining
   occurrences of a non-empty argument are folded back into the variable (equation Earg), so
   that the reasoning that follows sees `rev x`, `length x` as for the other functions.  Does
   nothing for the functions that do not inspect their argument. *)
Ltac arg_split x :=
  let E := fresh "Earg" in let c := fresh "c" in let x' := fresh x in
  destruct x as [|c x'] eqn:E; [|destruct c; try rewrite <- E in *].
Ltac arg_cases x :=
  try match goal with
      | H : context [match x with nil => _ | cons _ _ => _ end] |- _ => arg_split x
      | |- context [match x with nil => _ | cons _ _ => _ end] => arg_split x
      end.

(* Every function of the menu but the shortening one (10) returns at least as many cells
   as it receives, or a typed slice, which row-wise Apply does not take over at all (row_cells
   is ncols nils then - also for 12, the shorter []int, and 13, the longer []string); so its
   row result has one cell per column.  For function 10 it is false:
   row_cells 2 (apply_fn 10 [CNil; CNil]) = [CNil]. *)
Lemma row_cells_length id x : id <> 10%nat ->
  length (row_cells (length x) (apply_fn id x)) = length x.
Proof.
  unfold row_cells. intros Hid.
  menu_cases id; cbn [apply_fn]; arg_cases x;
    try (rewrite repeat_length; reflexivity); try congruence; rewrite firstn_length;
    rewrite ?rev_length, ?map_length, ?app_length; cbn [length]; lia.
Qed.
Example row_cells_length_needs_premise :
  row_cells 2 (apply_fn 10 [CNil; CNil]) = [CNil] /\ apply_row_cells 10 2 [CNil; CNil] = Err.
Proof. vm_compute. split; reflexivity. Qed.
Example row_cells_typed_other_length :
  row_cells 2 (apply_fn 12 [CB true; CB true]) = [CNil; CNil] /\
  row_cells 2 (apply_fn 13 [CB true; CB true]) = [CNil; CNil] /\
  apply_row_cells 12 2 [CB true; CB true] = Ok [CNil; CNil] /\
  apply_row_cells 13 2 [CB true; CB true] = Ok [CNil; CNil].
Proof. vm_compute. repeat split; reflexivity. Qed.

(* the function is applied exactly once per row, to that row's cells in sorted-column
   order: the successive arguments are map (map snd) (rows f), the i-th result is what
   is written at row i *)
Definition apply_args (f : frame) : list (list cell) := map (fun r => map snd r) (rows f).
Definition apply_row_results (id : nat) (f : frame) : list (list cell) :=
  map (fun x => row_cells (ncols f) (apply_fn id x)) (apply_args f).

Theorem apply_once_per_row id f g : op_apply_row id f = Ok g ->
  g = map (fun kd => (fst kd, (fst kd, snd kd)))
          (combine (fkeys f) (transpose (ncols f) (apply_row_results id f))).
Proof.
  unfold op_apply_row. cbv zeta.
  destruct (all_some (map (frow f) (seq 0 (nrows f)))) as [rs|] eqn:E; [|discriminate].
  apply all_rows_are_rows in E. subst rs.
  destruct (out_all (map (fun r => apply_row_cells id (ncols f) (map snd r)) (rows f))) as [res| |] eqn:R;
    cbn [bind]; try discriminate.
  destruct (null f); [discriminate|]. intros H. inversion H. clear H.
  apply out_all_map_ok with (h' := fun r => row_cells (ncols f) (apply_fn id (map snd r))) in R.
  - subst res. unfold apply_row_results, apply_args. rewrite map_map. reflexivity.
  - intros x y _ Hy. now apply apply_row_cells_ok.
Qed.

Lemma transpose_length nc rws : length (transpose nc rws) = nc.
Proof. revert rws. induction nc as [|nc IH]; intros rws; cbn; auto. Qed.

Lemma map_snd_combine {A B} (a : list A) (b : list B) : length a = length b -> map snd (combine a b) = b.
Proof. revert b. induction a as [|x a IH]; intros [|y b] H; cbn in *; try lia; auto. f_equal. apply IH. lia. Qed.
Lemma map_fst_combine {A B} (a : list A) (b : list B) : length a = length b -> map fst (combine a b) = a.
Proof. revert b. induction a as [|x a IH]; intros [|y b] H; cbn in *; try lia; auto. f_equal. apply IH. lia. Qed.

Corollary apply_row_keys id f g : op_apply_row id f = Ok g -> fkeys g = fkeys f.
Proof.
  intros H. apply apply_once_per_row in H. subst g. unfold fkeys at 1. rewrite map_map. cbn [fst].
  change (map (fun x : str * list cell => fst x)) with (@map (str * list cell) _ fst).
  apply map_fst_combine. unfold fkeys. now rewrite map_length, transpose_length.
Qed.
Corollary apply_row_columns id f g : op_apply_row id f = Ok g ->
  map (fun kc => cdata (snd kc)) g = transpose (ncols f) (apply_row_results id f).
Proof.
  intros H. apply apply_once_per_row in H. subst g. rewrite map_map. cbn.
  change (map (fun x : str * list cell => snd x)) with (@map (str * list cell) _ snd).
  apply map_snd_combine. unfold fkeys. now rewrite map_length, transpose_length.
Qed.

Lemma out_all_map_each {A B} (h : A -> out B) l res :
  out_all (map h l) = Ok res -> forall x, In x l -> exists y, h x = Ok y.
Proof.
  revert res. induction l as [|a l IH]; intros res H x Hin; [destruct Hin|]. cbn in H.
  destruct (h a) as [ya| |] eqn:Ea; cbn in H; try discriminate.
  destruct (out_all (map h l)) as [rl| |] eqn:El; cbn in H; try discriminate.
  destruct Hin as [<-|Hin]; [exists ya; exact Ea | exact (IH rl eq_refl x Hin)].
Qed.

(* when the call succeeds every row result has one cell per column (a function that returns
   too few cells makes the call an error, see apply_row_short_is_error) *)
Lemma apply_row_results_width id f g : op_apply_row id f = Ok g ->
  width (ncols f) (apply_row_results id f).
Proof.
  unfold op_apply_row. cbv zeta.
  destruct (all_some (map (frow f) (seq 0 (nrows f)))) as [rs|] eqn:E; [|discriminate].
  apply all_rows_are_rows in E. subst rs.
  destruct (out_all (map (fun r => apply_row_cells id (ncols f) (map snd r)) (rows f))) as [res| |] eqn:R;
    cbn [bind]; try discriminate.
  intros _.
  unfold width, apply_row_results, apply_args. rewrite Forall_forall. intros r Hr.
  rewrite map_map in Hr. apply in_map_iff in Hr. destruct Hr as [r0 [E Hr0]]. subst r.
  destruct (out_all_map_each _ _ _ R r0 Hr0) as [y Hy]. cbn beta in Hy.
  rewrite <- (apply_row_cells_ok _ _ _ _ Hy). exact (apply_row_cells_length _ _ _ _ Hy).
Qed.
(* for the functions that return enough cells the width holds without running the call *)
Lemma apply_row_results_width_keeps id f : id <> 10%nat -> width (ncols f) (apply_row_results id f).
Proof.
  intros Hid.
  unfold width, apply_row_results, apply_args. rewrite Forall_forall. intros r Hr.
  rewrite map_map in Hr. apply in_map_iff in Hr. destruct Hr as [r0 [E Hr0]]. subst r.
  apply rows_length in Hr0. rewrite <- Hr0. rewrite <- (map_length snd r0). apply row_cells_length. exact Hid.
Qed.

(* on a rectangular, non-empty frame row-wise Apply with a function that returns at least as
   many cells as it receives or a typed slice (every function of the menu but 10) always succeeds.
   With function 10 it is an error as soon as there is a row: apply_row_short_is_error. *)
Theorem apply_row_total id f : id <> 10%nat -> rect f = true -> f <> [] ->
  exists g, op_apply_row id f = Ok g.
Proof.
  intros Hid R Hne. unfold op_apply_row. cbv zeta.
  destruct (rect_all_rows f R) as [rs E]. rewrite E.
  assert (Hrs : forall r, In r rs -> length r = ncols f).
  { intros r Hr. destruct (all_some_map_in _ _ _ _ E Hr) as [i [_ Hi]]. eapply frow_length; eauto. }
  assert (Hout : exists res, out_all (map (fun r => apply_row_cells id (ncols f) (map snd r)) rs) = Ok res).
  { clear E. induction rs as [|r rs IH]; cbn.
    - eexists; reflexivity.
    - destruct IH as [res Eres]; [intros; apply Hrs; now right|]. rewrite Eres.
      assert (Hr : length (map snd r) = ncols f) by (rewrite map_length; apply Hrs; now left).
      unfold apply_row_cells.
      pose proof (row_cells_length id (map snd r) Hid) as L. rewrite Hr in L. unfold row_cells in L.
      destruct (apply_fn id (map snd r)); cbn; try (eexists; reflexivity).
      rewrite firstn_length in L.
      assert (Hle : Nat.leb (ncols f) (length l) = true) by (apply Nat.leb_le; lia).
      rewrite Hle. cbn. eexists; reflexivity. }
  destruct Hout as [res Eres]. rewrite Eres. cbn [bind].
  destruct f; [congruence|]. cbn [null]. eexists; reflexivity.
Qed.
Corollary apply_row_total_keeps id f : fn_keeps_length id = true -> rect f = true -> f <> [] ->
  exists g, op_apply_row id f = Ok g.
Proof.
  intros Hk. apply apply_row_total. intros ->. discriminate Hk.
Qed.

(* the shortening function on a rectangular frame with at least one column and one row:
   the first row's result has too few cells, the call is an error (never a panic) *)
Theorem apply_row_short_is_error f : rect f = true -> f <> [] -> nrows f <> 0%nat ->
  op_apply_row 10 f = Err.
Proof.
  intros R Hne Hn. unfold op_apply_row. cbv zeta.
  destruct (rect_all_rows f R) as [rs E]. rewrite E.
  destruct (nrows f) as [|n] eqn:En; [congruence|].
  cbn [seq map all_some] in E.
  destruct (frow f 0) as [r|] eqn:Er; [|discriminate].
  destruct (all_some (map (frow f) (seq 1 n))) as [rs'|]; [|discriminate].
  injection E as <-. cbn [map out_all].
  apply frow_length in Er.
  rewrite (apply_row_cells_short 10 (ncols f) (map snd r) _ eq_refl); [reflexivity|].
  rewrite firstn_length, map_length, Er.
  assert (Hc : ncols f <> 0%nat) by (destruct f; [congruence | discriminate]).
  pose proof (Nat.div2_odd (ncols f)) as Hd.
  destruct (ncols f) as [|[|m]] eqn:Em; [congruence | cbn; lia |].
  pose proof (div2_le m) as Hm. cbn [Nat.div2]. lia.
Qed.

(* the link with the collector: whatever the completion order of the per-row results,
   the collector produces the columns that op_apply_row returns *)
Theorem C17_apply_row_any_schedule id f g : op_apply_row id f = Ok g ->
  forall sched, Permutation sched (tagged (apply_row_results id f)) ->
  collect (init_cols (ncols f) (length (rows f))) sched = map (fun kc => cdata (snd kc)) g.
Proof.
  intros H sched P. rewrite (apply_row_columns _ _ _ H).
  replace (length (rows f)) with (length (apply_row_results id f))
    by (unfold apply_row_results, apply_args; now rewrite !map_length).
  apply C17_any_schedule; [exact (apply_row_results_width id f g H) | exact P].
Qed.

Lemma rect_rows_length f : rect f = true -> length (rows f) = nrows f.
Proof.
  intros R. destruct (rect_all_rows f R) as [rs E].
  rewrite <- (all_rows_are_rows f rs E). apply all_some_map_length in E.
  now rewrite seq_length in E.
Qed.

(* the statement on a well-formed frame, with the Go code's allocation sizes
   (numCols columns of numRows cells): every completion order yields the model's frame *)
Theorem C17_apply_row_wf id f g : wf_frame f = true -> op_apply_row id f = Ok g ->
  forall sched, Permutation sched (combine (seq 0 (nrows f)) (apply_row_results id f)) ->
  collect (repeat (repeat CNil (nrows f)) (ncols f)) sched = map (fun kc => cdata (snd kc)) g.
Proof.
  intros W H sched P. unfold wf_frame in W. apply andb_prop in W. destruct W as [W _].
  apply andb_prop in W. destruct W as [R _].
  pose proof (rect_rows_length f R) as L.
  rewrite <- L in *. apply (C17_apply_row_any_schedule id f g H).
  unfold tagged. replace (length (apply_row_results id f)) with (length (rows f)); [exact P|].
  unfold apply_row_results, apply_args. now rewrite !map_length.
Qed.

(* ------------------------------------------------------------------ *)
(* 4. column-wise Apply: once per column, on the column's cells         *)
(* ------------------------------------------------------------------ *)

Lemma apply_col_cases id d :
  apply_col id d = match apply_fn id d with
                   | RAny l => Ok l
                   | RStrs l => Ok (map CS l)
                   | RInts l => Ok (map (CI KInt) l)
                   | RBools l => Ok (map CB l)
                   | RSingle c => Ok (repeat c (length d))
                   | RNilRes => Err
                   end.
Proof. reflexivity. Qed.
Lemma apply_col_single id d c : apply_fn id d = RSingle c -> apply_col id d = Ok (repeat c (length d)).
Proof. unfold apply_col. now intros ->. Qed.
Lemma apply_col_nil id d : apply_fn id d = RNilRes -> apply_col id d = Err.
Proof. unfold apply_col. now intros ->. Qed.
Lemma apply_col_no_panic id d : apply_col id d <> Panic.
Proof. unfold apply_col. destruct (apply_fn id d); discriminate. Qed.

Lemma out_all_forall2 {A B} (h : A -> out B) l res :
  out_all (map h l) = Ok res -> Forall2 (fun x y => h x = Ok y) l res.
Proof.
  revert res. induction l as [|x l IH]; intros res H; cbn in H.
  - inversion H. constructor.
  - destruct (h x) eqn:Ex; cbn in H; try discriminate.
    destruct (out_all (map h l)) eqn:El; cbn in H; try discriminate.
    inversion H; subst. constructor; auto.
Qed.

(* on success: same keys in the same order; the column at key k is named k and holds
   apply_col id of the old column's cells *)
Theorem apply_col_spec id f g : op_apply_col id f = Ok g ->
  f <> [] /\
  Forall2 (fun kc kd => fst kd = fst kc /\ cname (snd kd) = fst kc /\
                        apply_col id (cdata (snd kc)) = Ok (cdata (snd kd))) f g.
Proof.
  unfold op_apply_col. destruct f as [|kc0 f0] eqn:Ef; cbn [null]; [discriminate|]. rewrite <- Ef.
  intros H. split; [congruence|].
  destruct (out_all (map (fun kc : str * col => do d <- apply_col id (cdata (snd kc)); Ok (fst kc, (fst kc, d))) f))
    as [cols| |] eqn:E; cbn [bind] in H; try discriminate.
  inversion H; subst cols. clear H. apply out_all_forall2 in E.
  clear Ef. induction E as [|kc kd f' g' Hx _ IH]; constructor; auto.
  destruct (apply_col id (cdata (snd kc))) eqn:Ea; cbn [bind] in Hx; try discriminate.
  inversion Hx; subst kd. cbn. auto.
Qed.

Corollary apply_col_keys id f g : op_apply_col id f = Ok g -> fkeys g = fkeys f.
Proof.
  intros H. apply apply_col_spec in H. destruct H as [_ H]. unfold fkeys.
  induction H as [|kc kd f' g' [E _] _ IH]; cbn; auto. now rewrite E, IH.
Qed.
Corollary apply_col_get id f g k c : op_apply_col id f = Ok g -> fget f k = Some c ->
  exists d, apply_col id (cdata c) = Ok d /\ fget g k = Some (k, d).
Proof.
  intros H. apply apply_col_spec in H. destruct H as [_ H].
  induction H as [|[k1 c1] [k2 c2] f' g' [E1 [E2 E3]] _ IH]; cbn; [discriminate|].
  cbn in E1, E2, E3. subst k2. destruct (str_eqb k k1) eqn:Ek.
  - intros Hc. inversion Hc; subst c1. apply str_eqb_eq in Ek. subst k1.
    exists (cdata c2). split; [assumption|]. destruct c2 as [n2 d2]. cbn in *. now subst n2.
  - exact IH.
Qed.

Lemma out_all_err {A} (l : list (out A)) :
  Forall (fun o => o <> Panic) l -> In Err l -> out_all l = Err.
Proof.
  induction l as [|o l IH]; intros HF Hin; [destruct Hin|].
  inversion HF as [|? ? Ho Hl]; subst. cbn. destruct o as [a| |]; cbn; auto; [|congruence].
  destruct Hin as [Hin|Hin]; [discriminate|]. rewrite IH; auto.
Qed.

(* a nil result for any column is an error of the whole call *)
Theorem apply_col_nil_is_error id f kc : In kc f -> apply_fn id (cdata (snd kc)) = RNilRes ->
  op_apply_col id f = Err.
Proof.
  intros Hin Hn. unfold op_apply_col. destruct (null f); [reflexivity|].
  rewrite out_all_err; [reflexivity| |].
  - rewrite Forall_forall. intros o Ho. apply in_map_iff in Ho. destruct Ho as [kc' [E _]]. subst o.
    pose proof (apply_col_no_panic id (cdata (snd kc'))) as NP.
    destruct (apply_col id (cdata (snd kc'))); cbn; congruence.
  - apply in_map_iff. exists kc. split; [|assumption]. now rewrite (apply_col_nil _ _ Hn).
Qed.
Lemma apply_col_empty id : op_apply_col id [] = Err.
Proof. reflexivity. Qed.

(* the menu: shapes of the column results.  Functions 10-13 hand back a slice of another
   length (10, 11: []interface{}; 12: []int; 13: []string), which column-wise Apply stores as
   it is (apply_col 11 [CNil] = Ok [CNil; CS s_k]); the others keep the length *)
Lemma apply_col_length id d r : fn_keeps_length id = true ->
  apply_col id d = Ok r -> length r = length d.
Proof.
  unfold apply_col, fn_keeps_length.
  menu_cases id; cbn [apply_fn]; intros Hk H; arg_cases d;
    try discriminate; inversion H;
    rewrite ?rev_length, ?repeat_length, ?map_length, ?seq_length; reflexivity.
Qed.
Lemma apply_col_length_short d : apply_col 10 d = Ok (firstn (Nat.div2 (length d)) d).
Proof. reflexivity. Qed.
Lemma apply_col_length_long d : apply_col 11 d = Ok (d ++ [CS s_k]).
Proof. reflexivity. Qed.
Lemma apply_col_length_short_ints d :
  apply_col 12 d = Ok (map (CI KInt) (map Z.of_nat (seq 0 (Nat.div2 (length d))))).
Proof. reflexivity. Qed.
Lemma apply_col_length_long_strs d : apply_col 13 d = Ok (map CS (map (fun _ => s_k) d ++ [s_k])).
Proof. reflexivity. Qed.
(* the length of the stored column, for every function of the menu *)
Lemma apply_col_length_any id d r : apply_col id d = Ok r ->
  length r = match id with
             | 10%nat | 12%nat => Nat.div2 (length d)
             | 11%nat | 13%nat => S (length d)
             | _ => length d
             end.
Proof.
  unfold apply_col.
  menu_cases id; cbn [apply_fn]; intros H; arg_cases d; try discriminate; inversion H;
    rewrite ?map_length, ?app_length, ?map_length, ?rev_length, ?repeat_length, ?seq_length;
    cbn [length]; try reflexivity; try lia.
  apply firstn_length_le. apply div2_le.
Qed.

(* ------------------------------------------------------------------ *)
(* 5. the axis argument                                                *)
(* ------------------------------------------------------------------ *)
Theorem op_apply_axis id f :
  op_apply id f None = op_apply_col id f /\
  op_apply id f (Some []) = op_apply_col id f /\
  (forall rest, op_apply id f (Some (0 :: rest)) = op_apply_col id f) /\
  (forall a rest, a <> 0 -> op_apply id f (Some (a :: rest)) = op_apply_row id f).
Proof.
  repeat split; try reflexivity.
  intros a rest Ha. unfold op_apply. apply Z.eqb_neq in Ha. now rewrite Ha.
Qed.

(* ------------------------------------------------------------------ *)
(* examples                                                            *)
(* ------------------------------------------------------------------ *)
Definition ex_res : list (list cell) :=
  [[CI KInt 1; CS [97%N]]; [CI KInt 2; CNil]; [CI KInt 3; CB true]].
Fixpoint insert_all {A} (x : A) (l : list A) : list (list A) :=
  match l with
  | [] => [[x]]
  | y :: t => (x :: l) :: map (cons y) (insert_all x t)
  end.
Fixpoint perms {A} (l : list A) : list (list A) :=
  match l with
  | [] => [[]]
  | x :: t => flat_map (insert_all x) (perms t)
  end.

(* all 6 completion orders of a 3-row schedule give the sequential result *)
Example all_schedules_3 :
  length (perms (tagged ex_res)) = 6%nat /\
  forallb (fun sched => list_eqb cells_same (collect (init_cols 2 3) sched) (transpose 2 ex_res))
          (perms (tagged ex_res)) = true.
Proof. vm_compute. split; reflexivity. Qed.
Example ex_width : width 2 ex_res.
Proof. repeat constructor. Qed.
Example ex_one_schedule :
  collect (init_cols 2 3) [(2%nat, [CI KInt 3; CB true]); (0%nat, [CI KInt 1; CS [97%N]]); (1%nat, [CI KInt 2; CNil])]
  = [[CI KInt 1; CI KInt 2; CI KInt 3]; [CS [97%N]; CNil; CB true]].
Proof. vm_compute. reflexivity. Qed.

Definition ex_frame : frame :=
  [([97%N], ([97%N], [CI KInt 1; CI KInt 2; CNil]));
   ([98%N], ([98%N], [CS [120%N]; CNil; CS [121%N]]))].
Example ex_frame_wf : wf_frame ex_frame = true. Proof. vm_compute. reflexivity. Qed.
(* fn 1 reverses each row: the two columns are exchanged; every schedule gives that *)
Example ex_apply_row_rev :
  op_apply_row 1 ex_frame =
  Ok [([97%N], ([97%N], [CS [120%N]; CNil; CS [121%N]]));
      ([98%N], ([98%N], [CI KInt 1; CI KInt 2; CNil]))].
Proof. vm_compute. reflexivity. Qed.
Example ex_apply_all_schedules :
  forallb (fun sched =>
    match op_apply_row 1 ex_frame with
    | Ok g => list_eqb cells_same (collect (init_cols 2 3) sched) (map (fun kc => cdata (snd kc)) g)
    | _ => false end) (perms (tagged (apply_row_results 1 ex_frame))) = true.
Proof. vm_compute. reflexivity. Qed.
Example ex_apply_col_single :
  op_apply 2 ex_frame None =
  Ok [([97%N], ([97%N], [CS s_k; CS s_k; CS s_k])); ([98%N], ([98%N], [CS s_k; CS s_k; CS s_k]))].
Proof. vm_compute. reflexivity. Qed.
Example ex_apply_col_nil : op_apply 7 ex_frame (Some [0]) = Err.
Proof. vm_compute. reflexivity. Qed.
Example ex_apply_axis_row : op_apply 1 ex_frame (Some [1]) = op_apply_row 1 ex_frame.
Proof. reflexivity. Qed.
(* the shortening function: an error row-wise; the lengthening one: the extra cell is dropped *)
Example ex_apply_row_short : op_apply_row 10 ex_frame = Err.
Proof. vm_compute. reflexivity. Qed.
Example ex_apply_row_long : op_apply_row 11 ex_frame = Ok ex_frame.
Proof. vm_compute. reflexivity. Qed.
(* typed slices of another length: row-wise all cells become nil, column-wise the columns
   change their length (all alike) *)
Example ex_apply_row_typed :
  op_apply_row 12 ex_frame = Ok [([97%N], ([97%N], [CNil; CNil; CNil])); ([98%N], ([98%N], [CNil; CNil; CNil]))] /\
  op_apply_row 13 ex_frame = op_apply_row 12 ex_frame.
Proof. vm_compute. split; reflexivity. Qed.
Example ex_apply_col_typed :
  op_apply_col 12 ex_frame = Ok [([97%N], ([97%N], [CI KInt 0])); ([98%N], ([98%N], [CI KInt 0]))] /\
  op_apply_col 13 ex_frame =
    Ok [([97%N], ([97%N], [CS s_k; CS s_k; CS s_k; CS s_k])); ([98%N], ([98%N], [CS s_k; CS s_k; CS s_k; CS s_k]))].
Proof. vm_compute. split; reflexivity. Qed.
Example ex_apply_row_total_premises : rect ex_frame = true /\ ex_frame <> [] /\ nrows ex_frame <> 0%nat.
Proof. repeat split; discriminate. Qed.

Print Assumptions collect_schedule_independent.
Print Assumptions collect_sequential.
Print Assumptions C17_any_schedule.
Print Assumptions apply_once_per_row.
Print Assumptions apply_row_total.
Print Assumptions apply_row_short_is_error.
Print Assumptions C17_apply_row_any_schedule.
Print Assumptions C17_apply_row_wf.
Print Assumptions apply_col_spec.
Print Assumptions apply_col_nil_is_error.
Print Assumptions op_apply_axis.
