(* Proof_C07.v - DropDuplicates: which rows are kept by keep = first / last / none,
   original order, no false merge, one representative per class, error cases,
   in-place variant keeps the same rows. *)
From GF Require Import Ops Lemmas.
From Coq Require Import Lia Sorted.
Arguments N.eqb : simpl never.
Local Open Scope nat_scope.

(* ------------------------------------------------------------------ *)
(* 1. cell equality (Go's interface ==) is symmetric and transitive;   *)
(*    it is reflexive exactly on cells that are not a NaN float.       *)
(* ------------------------------------------------------------------ *)

Lemma ikind_eqb_eq a b : ikind_eqb a b = true <-> a = b.
Proof. destruct a, b; cbn; split; intro H; try reflexivity; discriminate. Qed.
Lemma fkind_eqb_eq a b : fkind_eqb a b = true <-> a = b.
Proof. destruct a, b; cbn; split; intro H; try reflexivity; discriminate. Qed.

Lemma zlist_eqb_eq a b : zlist_eqb a b = true <-> a = b.
Proof.
  revert b; induction a as [|x a IH]; intros [|y b]; cbn; split; intro H; try discriminate; auto.
  - apply andb_prop in H. destruct H as [H1 H2]. apply Z.eqb_eq in H1. apply IH in H2. now subst.
  - inversion H; subst. rewrite Z.eqb_refl. now apply IH.
Qed.

Lemma fl_is_zero_fin m : fl_is_zero (FFin m) = true <-> m = 0%Z.
Proof. destruct m; cbn; split; intro H; try reflexivity; discriminate. Qed.

Lemma fl_eq_sym a b : fl_eq a b = fl_eq b a.
Proof. destruct a, b; cbn [fl_eq]; try reflexivity. apply Z.eqb_sym. Qed.

(* transitivity holds for every float, zeros and infinities included: NaN is equal to
   nothing, so no chain passes through it *)
Lemma fl_eq_trans a b c : fl_eq a b = true -> fl_eq b c = true -> fl_eq a c = true.
Proof.
  destruct a, b, c; cbn [fl_eq]; intros H1 H2; try discriminate; try reflexivity;
    rewrite ?fl_is_zero_fin, ?Z.eqb_eq in *; subst; try reflexivity; try lia.
Qed.

Lemma fl_eq_refl_iff a : fl_eq a a = true <-> a <> FNaN.
Proof.
  destruct a; cbn; split; intro H; try reflexivity; try discriminate; try congruence.
  apply Z.eqb_refl.
Qed.

Lemma cell_eqb_sym a b : cell_eqb a b = cell_eqb b a.
Proof.
  destruct a as [|k x|k x|s|p|t], b as [|k' y|k' y|s'|p'|t']; cbn [cell_eqb]; try reflexivity.
  - rewrite Z.eqb_sym. f_equal. destruct k, k'; reflexivity.
  - rewrite fl_eq_sym. f_equal. destruct k, k'; reflexivity.
  - apply str_eqb_sym.
  - destruct p, p'; reflexivity.
  - destruct (zlist_eqb t t') eqn:E.
    + apply zlist_eqb_eq in E. subst. symmetry. now apply zlist_eqb_eq.
    + destruct (zlist_eqb t' t) eqn:E'; auto. apply zlist_eqb_eq in E'. subst.
      assert (H : zlist_eqb t t = true) by now apply zlist_eqb_eq. congruence.
Qed.

Lemma cell_eqb_trans a b c : cell_eqb a b = true -> cell_eqb b c = true -> cell_eqb a c = true.
Proof.
  destruct a as [|k x|k x|s|p|t], b as [|k' y|k' y|s'|p'|t'], c as [|k'' z|k'' z|s''|p''|t''];
    cbn [cell_eqb]; intros H1 H2; try discriminate; try reflexivity.
  - apply andb_prop in H1. destruct H1 as [A1 B1]. apply andb_prop in H2. destruct H2 as [A2 B2].
    apply ikind_eqb_eq in A1. apply ikind_eqb_eq in A2. apply Z.eqb_eq in B1. apply Z.eqb_eq in B2.
    subst. apply andb_true_intro. split; [now apply ikind_eqb_eq | apply Z.eqb_refl].
  - apply andb_prop in H1. destruct H1 as [A1 B1]. apply andb_prop in H2. destruct H2 as [A2 B2].
    apply fkind_eqb_eq in A1. apply fkind_eqb_eq in A2. subst.
    apply andb_true_intro. split; [now apply fkind_eqb_eq | eapply fl_eq_trans; eauto].
  - apply str_eqb_eq in H1. apply str_eqb_eq in H2. subst. apply str_eqb_refl.
  - apply eqb_prop in H1. apply eqb_prop in H2. subst. apply eqb_reflx.
  - apply zlist_eqb_eq in H1. apply zlist_eqb_eq in H2. subst. now apply zlist_eqb_eq.
Qed.

(* the only cells that are not equal to themselves are NaN floats *)
Lemma cell_eqb_refl_iff c : cell_eqb c c = true <-> forall k, c <> CF k FNaN.
Proof.
  destruct c as [|k x|k x|s|p|t]; cbn [cell_eqb];
    (split; [intros H k' E; try discriminate | intro H; try reflexivity]).
  - apply andb_true_intro. split; [now apply ikind_eqb_eq | apply Z.eqb_refl].
  - inversion E; subst. apply andb_prop in H. destruct H as [_ H]. discriminate.
  - apply andb_true_intro. split; [now apply fkind_eqb_eq|]. apply fl_eq_refl_iff. intro E. subst.
    now apply (H k).
  - apply str_eqb_refl.
  - apply eqb_reflx.
  - now apply zlist_eqb_eq.
Qed.

(* lists of cells *)
Lemma keys_eqb_sym a b : keys_eqb a b = keys_eqb b a.
Proof.
  unfold keys_eqb. revert b; induction a as [|x a IH]; intros [|y b]; cbn [list_eqb]; try reflexivity.
  now rewrite cell_eqb_sym, IH.
Qed.

Lemma keys_eqb_trans a b c : keys_eqb a b = true -> keys_eqb b c = true -> keys_eqb a c = true.
Proof.
  unfold keys_eqb. revert b c; induction a as [|x a IH]; intros [|y b] [|z c]; cbn [list_eqb];
    intros H1 H2; try discriminate; try reflexivity.
  apply andb_prop in H1. destruct H1 as [A1 B1]. apply andb_prop in H2. destruct H2 as [A2 B2].
  apply andb_true_intro. split; [eapply cell_eqb_trans; eauto | eapply IH; eauto].
Qed.

(* a key list is "proper" when keys_eqb k k = true: it holds no NaN *)
Lemma keys_proper_iff k : keys_eqb k k = true <-> forall c, In c k -> cell_eqb c c = true.
Proof.
  unfold keys_eqb. induction k as [|x k IH]; cbn [list_eqb]; split; intro H.
  - intros c [].
  - reflexivity.
  - apply andb_prop in H. destruct H as [A B]. intros c [E|Hin]; [now subst | now apply IH].
  - apply andb_true_intro. split; [apply H; now left | apply IH; intros c Hc; apply H; now right].
Qed.

(* equal keys have the same length (the same compared columns) *)
Lemma keys_eqb_length a b : keys_eqb a b = true -> length a = length b.
Proof.
  unfold keys_eqb. revert b; induction a as [|x a IH]; intros [|y b]; cbn [list_eqb length];
    intro H; try discriminate; auto.
  apply andb_prop in H. destruct H as [_ H]. f_equal. now apply IH.
Qed.

(* ------------------------------------------------------------------ *)
(* 2. keep = "first"                                                    *)
(* ------------------------------------------------------------------ *)

Lemma existsb_false_iff {A} (g : A -> bool) l :
  existsb g l = false <-> forall x, In x l -> g x = false.
Proof.
  induction l as [|y l IH]; cbn [existsb In]; split; intro H.
  - intros x [].
  - reflexivity.
  - apply orb_false_elim in H. destruct H as [H1 H2]. intros x [E|Hin]; [now subst | now apply IH].
  - apply orb_false_intro; [apply H; now left | apply IH; intros x Hx; apply H; now right].
Qed.

(* generalisation over the offset and the accumulator: position off+p is kept iff its key
   equals no key in [seen] and no earlier key of the list *)
Lemma first_idx_gen ks : forall off seen i,
  In i (first_idx ks off seen) <->
  exists p, i = off + p /\ p < length ks
            /\ existsb (keys_eqb (nth p ks [])) seen = false
            /\ forall j, j < p -> keys_eqb (nth j ks []) (nth p ks []) = false.
Proof.
  induction ks as [|k t IH]; intros off seen i; cbn [first_idx].
  - split; [intros [] | intros [p [_ [H _]]]; cbn in H; lia].
  - destruct (existsb (keys_eqb k) seen) eqn:E.
    + rewrite IH. split.
      * intros [p [Hi [Hp [Hs Hj]]]]. exists (S p). cbn [nth length].
        split; [lia|]. split; [lia|]. split; [assumption|].
        intros [|j] Hlt; cbn [nth].
        -- destruct (keys_eqb k (nth p t [])) eqn:K; auto. exfalso.
           apply existsb_exists in E. destruct E as [s [Hin Hs']].
           rewrite existsb_false_iff in Hs. specialize (Hs s Hin).
           rewrite keys_eqb_sym in K. rewrite (keys_eqb_trans _ _ _ K Hs') in Hs. discriminate.
        -- apply Hj. lia.
      * intros [[|p] [Hi [Hp [Hs Hj]]]]; cbn [nth length] in *.
        -- congruence.
        -- exists p. split; [lia|]. split; [lia|]. split; [assumption|].
           intros j Hlt. apply (Hj (S j)). lia.
    + cbn [In]. rewrite IH. split.
      * intros [Hi | [p [Hi [Hp [Hs Hj]]]]].
        -- exists 0. cbn [nth length]. split; [lia|]. split; [lia|]. split; [assumption|].
           intros j Hlt. lia.
        -- exists (S p). cbn [nth length]. cbn [existsb] in Hs.
           apply orb_false_elim in Hs. destruct Hs as [Hk Hs].
           split; [lia|]. split; [lia|]. split; [assumption|].
           intros [|j] Hlt; cbn [nth].
           ++ now rewrite keys_eqb_sym.
           ++ apply Hj. lia.
      * intros [[|p] [Hi [Hp [Hs Hj]]]]; cbn [nth length] in *.
        -- left. lia.
        -- right. exists p. split; [lia|]. split; [lia|]. split.
           ++ cbn [existsb]. apply orb_false_intro; [|assumption].
              rewrite keys_eqb_sym. apply (Hj 0). lia.
           ++ intros j Hlt. apply (Hj (S j)). lia.
Qed.

(* Stronger than asked: no properness hypothesis is needed for keep = first (a row holding
   a NaN equals no row, hence is always kept, as in Go). *)
Theorem first_idx_spec_any ks i :
  In i (first_idx ks 0 []) <->
  (i < length ks /\ forall j, j < i -> keys_eqb (nth j ks []) (nth i ks []) = false).
Proof.
  rewrite first_idx_gen. split.
  - intros [p [Hi [Hp [_ Hj]]]]. cbn in Hi. subst p. auto.
  - intros [Hi Hj]. exists i. cbn [existsb]. auto.
Qed.

Theorem first_idx_spec ks :
  (forall k, In k ks -> keys_eqb k k = true) ->
  forall i, In i (first_idx ks 0 []) <->
  (i < length ks /\ forall j, j < i -> keys_eqb (nth j ks []) (nth i ks []) = false).
Proof. intros _ i. apply first_idx_spec_any. Qed.

(* order and range *)
Lemma first_idx_sorted_gen ks : forall off seen,
  StronglySorted lt (first_idx ks off seen)
  /\ Forall (fun i => off <= i < off + length ks) (first_idx ks off seen).
Proof.
  induction ks as [|k t IH]; intros off seen; cbn [first_idx length].
  - split; constructor.
  - destruct (IH (S off) seen) as [S1 F1]. destruct (IH (S off) (k :: seen)) as [S2 F2].
    destruct (existsb (keys_eqb k) seen).
    + split; [assumption|]. eapply Forall_impl; [|exact F1]. cbn beta. intros a Ha. lia.
    + split.
      * constructor; [assumption|]. eapply Forall_impl; [|exact F2]. cbn beta. intros a Ha. lia.
      * constructor; [lia|]. eapply Forall_impl; [|exact F2]. cbn beta. intros a Ha. lia.
Qed.

Theorem first_idx_sorted ks : StronglySorted lt (first_idx ks 0 []).
Proof. apply first_idx_sorted_gen. Qed.
Theorem first_idx_range ks : Forall (fun i => i < length ks) (first_idx ks 0 []).
Proof.
  destruct (first_idx_sorted_gen ks 0 []) as [_ F]. eapply Forall_impl; [|exact F].
  cbn beta. intros a Ha. lia.
Qed.

(* bounded search *)
Lemma bounded_search (P : nat -> bool) n :
  (forall j, j < n -> P j = false) \/ (exists j, j < n /\ P j = true).
Proof.
  induction n as [|n IH].
  - left. intros j Hj. lia.
  - destruct IH as [IH|[j [Hj Hp]]].
    + destruct (P n) eqn:E.
      * right. exists n. split; [lia|assumption].
      * left. intros j Hj. destruct (Nat.eq_dec j n) as [->|N]; [assumption | apply IH; lia].
    + right. exists j. split; [lia|assumption].
Qed.

(* rows that differ in a compared cell are never merged: every removed row has an
   identical kept row before it *)
Theorem first_no_false_merge ks i :
  i < length ks -> ~ In i (first_idx ks 0 []) ->
  exists j, j < i /\ In j (first_idx ks 0 []) /\ keys_eqb (nth j ks []) (nth i ks []) = true.
Proof.
  induction i as [i IH] using lt_wf_ind. intros Hi Hn.
  destruct (bounded_search (fun j => keys_eqb (nth j ks []) (nth i ks [])) i) as [Hall|[j [Hj Hp]]].
  - exfalso. apply Hn. apply first_idx_spec_any. auto.
  - cbn beta in Hp.
    destruct (in_dec Nat.eq_dec j (first_idx ks 0 [])) as [Hin|Hnin].
    + exists j. auto.
    + destruct (IH j Hj ltac:(lia) Hnin) as [j' [Hj' [Hin' He]]].
      exists j'. split; [lia|]. split; [assumption|]. eapply keys_eqb_trans; eauto.
Qed.

(* every class of identical rows keeps exactly one member *)
Theorem first_one_per_class ks i j :
  In i (first_idx ks 0 []) -> In j (first_idx ks 0 []) ->
  keys_eqb (nth i ks []) (nth j ks []) = true -> i = j.
Proof.
  intros Hi Hj He. apply first_idx_spec_any in Hi. apply first_idx_spec_any in Hj.
  destruct Hi as [Li Fi]. destruct Hj as [Lj Fj].
  destruct (Nat.lt_trichotomy i j) as [L|[E|L]]; [|assumption|].
  - rewrite (Fj i L) in He. discriminate.
  - rewrite keys_eqb_sym in He. rewrite (Fi j L) in He. discriminate.
Qed.

(* on proper keys every row has a kept representative (itself when it is kept) *)
Theorem first_covers ks i :
  i < length ks -> keys_eqb (nth i ks []) (nth i ks []) = true ->
  exists j, j <= i /\ In j (first_idx ks 0 []) /\ keys_eqb (nth j ks []) (nth i ks []) = true.
Proof.
  intros Hi Hp. destruct (in_dec Nat.eq_dec i (first_idx ks 0 [])) as [Hin|Hnin].
  - exists i. auto.
  - destruct (first_no_false_merge ks i Hi Hnin) as [j [Hj [Hin He]]]. exists j.
    split; [lia|]. auto.
Qed.

(* ------------------------------------------------------------------ *)
(* 3. keep = "last"                                                     *)
(* ------------------------------------------------------------------ *)

Lemma nth_rev_keys (ks : list (list cell)) j :
  j < length ks -> nth j (rev ks) [] = nth (length ks - 1 - j) ks [].
Proof. intros H. rewrite rev_nth by assumption. f_equal. lia. Qed.

(* last_idx is first_idx of the reversed list, mirrored *)
Lemma last_idx_in ks i :
  In i (last_idx ks) <-> i < length ks /\ In (length ks - 1 - i) (first_idx (rev ks) 0 []).
Proof.
  unfold last_idx. rewrite <- in_rev, in_map_iff. split.
  - intros [x [E Hx]]. pose proof (first_idx_range (rev ks)) as F.
    rewrite Forall_forall in F. specialize (F x Hx). cbn beta in F. rewrite rev_length in F.
    split; [lia|]. replace (length ks - 1 - i) with x by lia. assumption.
  - intros [Hi Hx]. exists (length ks - 1 - i). split; [lia|assumption].
Qed.

Theorem last_idx_spec_any ks i :
  In i (last_idx ks) <->
  (i < length ks /\ forall j, i < j < length ks -> keys_eqb (nth j ks []) (nth i ks []) = false).
Proof.
  rewrite last_idx_in, first_idx_spec_any, rev_length. split.
  - intros [Hi [_ H]]. split; [assumption|]. intros j Hj.
    specialize (H (length ks - 1 - j) ltac:(lia)).
    rewrite !nth_rev_keys in H by lia.
    replace (length ks - 1 - (length ks - 1 - j)) with j in H by lia.
    replace (length ks - 1 - (length ks - 1 - i)) with i in H by lia. assumption.
  - intros [Hi H]. split; [assumption|]. split; [lia|]. intros j Hj.
    rewrite !nth_rev_keys by lia.
    replace (length ks - 1 - (length ks - 1 - i)) with i by lia.
    apply H. lia.
Qed.

Theorem last_idx_spec ks :
  (forall k, In k ks -> keys_eqb k k = true) ->
  forall i, In i (last_idx ks) <->
  (i < length ks /\ forall j, i < j < length ks -> keys_eqb (nth j ks []) (nth i ks []) = false).
Proof. intros _ i. apply last_idx_spec_any. Qed.

Lemma SS_app_single {A} (R : A -> A -> Prop) l x :
  StronglySorted R l -> Forall (fun y => R y x) l -> StronglySorted R (l ++ [x]).
Proof.
  induction l as [|a l IH]; intros HS HF; cbn [app].
  - constructor; constructor.
  - inversion HS as [|a' l' HS' HF']; subst. inversion HF as [|a' l' Ra HFl]; subst.
    constructor; [now apply IH|]. apply Forall_app. split; [assumption|]. constructor; [assumption|constructor].
Qed.

Lemma SS_rev {A} (R : A -> A -> Prop) l :
  StronglySorted R l -> StronglySorted (fun a b => R b a) (rev l).
Proof.
  induction l as [|a l IH]; intros HS; cbn [rev].
  - constructor.
  - inversion HS as [|a' l' HS' HF']; subst. apply SS_app_single; [now apply IH|].
    apply Forall_forall. intros y Hy. apply in_rev in Hy. rewrite Forall_forall in HF'. now apply HF'.
Qed.

Lemma SS_mirror n l :
  StronglySorted lt l -> Forall (fun i => i < n) l ->
  StronglySorted (fun a b => b < a) (map (fun j => n - 1 - j) l).
Proof.
  induction l as [|a l IH]; intros HS HF; cbn [map].
  - constructor.
  - inversion HS as [|a' l' HS' HF']; subst. inversion HF as [|a' l' Ha HFl]; subst.
    constructor; [now apply IH|]. apply Forall_forall. intros y Hy. apply in_map_iff in Hy.
    destruct Hy as [x [E Hx]]. rewrite Forall_forall in HF', HFl.
    specialize (HF' x Hx). specialize (HFl x Hx). cbn beta in HFl. lia.
Qed.

Theorem last_idx_sorted ks : StronglySorted lt (last_idx ks).
Proof.
  unfold last_idx.
  apply (SS_rev (fun a b => b < a)). apply SS_mirror; [apply first_idx_sorted|].
  pose proof (first_idx_range (rev ks)) as F. now rewrite rev_length in F.
Qed.
Theorem last_idx_range ks : Forall (fun i => i < length ks) (last_idx ks).
Proof. apply Forall_forall. intros i Hi. now apply last_idx_in in Hi. Qed.

(* every removed row has an identical kept row after it *)
Theorem last_no_false_merge ks i :
  i < length ks -> ~ In i (last_idx ks) ->
  exists j, i < j < length ks /\ In j (last_idx ks) /\ keys_eqb (nth j ks []) (nth i ks []) = true.
Proof.
  intros Hi Hn.
  assert (Hn' : ~ In (length ks - 1 - i) (first_idx (rev ks) 0 [])).
  { intro H. apply Hn. apply last_idx_in. auto. }
  destruct (first_no_false_merge (rev ks) (length ks - 1 - i)) as [x [Hx [Hin He]]];
    [rewrite rev_length; lia | assumption |].
  exists (length ks - 1 - x). split; [lia|]. split.
  - apply last_idx_in. split; [lia|]. replace (length ks - 1 - (length ks - 1 - x)) with x by lia.
    assumption.
  - rewrite !nth_rev_keys in He by lia.
    replace (length ks - 1 - (length ks - 1 - i)) with i in He by lia. assumption.
Qed.

Theorem last_one_per_class ks i j :
  In i (last_idx ks) -> In j (last_idx ks) ->
  keys_eqb (nth i ks []) (nth j ks []) = true -> i = j.
Proof.
  intros Hi Hj He. apply last_idx_spec_any in Hi. apply last_idx_spec_any in Hj.
  destruct Hi as [Li Fi]. destruct Hj as [Lj Fj].
  destruct (Nat.lt_trichotomy i j) as [L|[E|L]]; [|assumption|].
  - rewrite keys_eqb_sym in He. rewrite (Fi j) in He by lia. discriminate.
  - rewrite (Fj i) in He by lia. discriminate.
Qed.

(* ------------------------------------------------------------------ *)
(* 4. keep = "none"                                                     *)
(* ------------------------------------------------------------------ *)

Lemma combine_seq_in (l : list (list cell)) : forall a i k,
  In (i, k) (combine (seq a (length l)) l) <-> (a <= i < a + length l /\ nth (i - a) l [] = k).
Proof.
  induction l as [|x t IH]; intros a i k; cbn [length seq combine In].
  - split; [intros [] | intros [H _]; lia].
  - rewrite IH. split.
    + intros [E|[Hr Hn]].
      * inversion E; subst. split; [lia|]. now rewrite Nat.sub_diag.
      * split; [lia|]. replace (i - a) with (S (i - S a)) by lia. assumption.
    + intros [Hr Hn]. destruct (Nat.eq_dec i a) as [->|N].
      * left. rewrite Nat.sub_diag in Hn. cbn [nth] in Hn. now subst.
      * right. split; [lia|]. replace (i - a) with (S (i - S a)) in Hn by lia. assumption.
Qed.

Lemma none_idx_in ks i :
  In i (none_idx ks) <->
  i < length ks /\ length (filter (keys_eqb (nth i ks [])) ks) = 1.
Proof.
  unfold none_idx. rewrite in_map_iff. split.
  - intros [[i' k] [E H]]. cbn [fst] in E. subst i'. apply filter_In in H. destruct H as [Hin Hc].
    apply combine_seq_in in Hin. destruct Hin as [Hr Hn]. rewrite Nat.sub_0_r in Hn. subst k.
    cbn [snd] in Hc. apply Nat.eqb_eq in Hc. split; [lia|assumption].
  - intros [Hi Hc]. exists (i, nth i ks []). split; [reflexivity|]. apply filter_In. split.
    + apply combine_seq_in. rewrite Nat.sub_0_r. split; [lia|reflexivity].
    + cbn [snd]. now apply Nat.eqb_eq.
Qed.

Lemma count_zero {A} (P : A -> bool) (d : A) l :
  length (filter P l) = 0 <-> forall j, j < length l -> P (nth j l d) = false.
Proof.
  induction l as [|x t IH]; cbn [filter length].
  - split; [intros _ j Hj; lia | reflexivity].
  - destruct (P x) eqn:E; cbn [length].
    + split; [discriminate|]. intros H. specialize (H 0 ltac:(lia)). cbn [nth] in H. congruence.
    + rewrite IH. split.
      * intros H [|j] Hj; cbn [nth]; [assumption | apply H; lia].
      * intros H j Hj. apply (H (S j)). lia.
Qed.

Lemma count_one {A} (P : A -> bool) (d : A) l : forall i,
  i < length l -> P (nth i l d) = true ->
  (length (filter P l) = 1 <-> forall j, j < length l -> j <> i -> P (nth j l d) = false).
Proof.
  induction l as [|x t IH]; intros i Hi Hp; cbn [length] in Hi; [lia|].
  destruct i as [|i]; cbn [nth] in Hp; cbn [filter length].
  - rewrite Hp. cbn [length]. split.
    + intros H. assert (H0 : length (filter P t) = 0) by lia.
      rewrite (count_zero P d) in H0. intros [|j] Hj Hne; [lia|]. cbn [nth]. apply H0. lia.
    + intros H. f_equal. apply (count_zero P d). intros j Hj. apply (H (S j)); lia.
  - destruct (P x) eqn:E; cbn [length].
    + split.
      * intros H. assert (H0 : length (filter P t) = 0) by lia.
        rewrite (count_zero P d) in H0. rewrite H0 in Hp by lia. discriminate.
      * intros H. specialize (H 0 ltac:(lia) ltac:(lia)). cbn [nth] in H. congruence.
    + rewrite (IH i) by (assumption || lia). split.
      * intros H [|j] Hj Hne; cbn [nth]; [assumption | apply H; lia].
      * intros H j Hj Hne. apply (H (S j)); lia.
Qed.

(* Exact characterisation for arbitrary keys.  Note the middle conjunct: in the model (as
   in the Go code, which counts the rows r with key(r) == key(i), i included) a row that
   holds a NaN in a compared column has count 0 and is REMOVED by keep = "none", although
   it has no identical partner. *)
Theorem none_idx_spec_any ks i :
  In i (none_idx ks) <->
  (i < length ks /\ keys_eqb (nth i ks []) (nth i ks []) = true
   /\ forall j, j < length ks -> j <> i -> keys_eqb (nth j ks []) (nth i ks []) = false).
Proof.
  rewrite none_idx_in. split.
  - intros [Hi Hc]. split; [assumption|].
    assert (R : keys_eqb (nth i ks []) (nth i ks []) = true).
    { destruct (filter (keys_eqb (nth i ks [])) ks) as [|x r] eqn:F; [discriminate|].
      assert (Hx : In x (filter (keys_eqb (nth i ks [])) ks)) by (rewrite F; now left).
      apply filter_In in Hx. destruct Hx as [_ Hx].
      eapply keys_eqb_trans; [exact Hx|]. now rewrite keys_eqb_sym. }
    split; [assumption|].
    intros j Hj Hne. rewrite keys_eqb_sym.
    apply (proj1 (count_one (keys_eqb (nth i ks [])) [] ks i Hi R) Hc j Hj Hne).
  - intros [Hi [R H]]. split; [assumption|].
    apply (count_one (keys_eqb (nth i ks [])) [] ks i Hi R).
    intros j Hj Hne. rewrite keys_eqb_sym. now apply H.
Qed.

Theorem none_idx_spec ks :
  (forall k, In k ks -> keys_eqb k k = true) ->
  forall i, In i (none_idx ks) <->
  (i < length ks /\ forall j, j < length ks -> j <> i -> keys_eqb (nth j ks []) (nth i ks []) = false).
Proof.
  intros Hp i. rewrite none_idx_spec_any. split.
  - intros [Hi [_ H]]. auto.
  - intros [Hi H]. split; [assumption|]. split; [|assumption]. apply Hp. now apply nth_In.
Qed.

Lemma none_idx_sorted_gen (g : nat * list cell -> bool) (l : list (list cell)) : forall a,
  StronglySorted lt (map fst (filter g (combine (seq a (length l)) l)))
  /\ Forall (fun i => a <= i < a + length l) (map fst (filter g (combine (seq a (length l)) l))).
Proof.
  induction l as [|x t IH]; intros a; cbn [length seq combine filter].
  - cbn [map]. split; constructor.
  - destruct (IH (S a)) as [S1 F1].
    assert (F1' : Forall (fun i => a < i < a + S (length t))
                    (map fst (filter g (combine (seq (S a) (length t)) t)))).
    { eapply Forall_impl; [|exact F1]. cbn beta. intros b Hb. lia. }
    destruct (g (a, x)); cbn [map fst].
    + split; constructor; try assumption; try lia.
      * eapply Forall_impl; [|exact F1']. cbn beta. intros b Hb. lia.
      * eapply Forall_impl; [|exact F1']. cbn beta. intros b Hb. lia.
    + split; [assumption|]. eapply Forall_impl; [|exact F1']. cbn beta. intros b Hb. lia.
Qed.

Theorem none_idx_sorted ks : StronglySorted lt (none_idx ks).
Proof. unfold none_idx. apply none_idx_sorted_gen. Qed.
Theorem none_idx_range ks : Forall (fun i => i < length ks) (none_idx ks).
Proof. apply Forall_forall. intros i Hi. now apply none_idx_in in Hi. Qed.

(* keep = none keeps a subset of what first and last keep *)
Theorem none_sub_first_last ks i :
  In i (none_idx ks) -> In i (first_idx ks 0 []) /\ In i (last_idx ks).
Proof.
  intros H. apply none_idx_spec_any in H. destruct H as [Hi [_ H]]. split.
  - apply first_idx_spec_any. split; [assumption|]. intros j Hj. apply H; lia.
  - apply last_idx_spec_any. split; [assumption|]. intros j Hj. apply H; lia.
Qed.

(* ------------------------------------------------------------------ *)
(* 5. frame level: errors, default, no panic                            *)
(* ------------------------------------------------------------------ *)

(* the Keep value and the compared columns that DropDuplicates ends up using *)
Definition dd_keep (has_opt : bool) (keep : str) : str :=
  if has_opt && negb (null keep) then keep else s_first.
Definition dd_names (f : frame) (has_opt : bool) (subset : list str) : list str :=
  if has_opt && negb (null subset) then subset else fkeys f.

Lemma all_some_in_none {A} (l : list (option A)) : In None l -> all_some l = None.
Proof.
  induction l as [|o t IH]; intros H; [destruct H|]. destruct o as [x|]; cbn [all_some]; [|reflexivity].
  destruct H as [H|H]; [discriminate|]. now rewrite IH.
Qed.

Lemma row_key_absent f names n i : In n names -> fget f n = None -> row_key f names i = None.
Proof.
  intros Hin Hg. unfold row_key. apply all_some_in_none. apply in_map_iff. exists n.
  rewrite Hg. auto.
Qed.

(* an unknown Keep is an error: nothing is removed, no frame is produced *)
Theorem dedup_bad_keep f subset keep :
  null keep = false ->
  str_eqb keep s_first = false -> str_eqb keep s_last = false -> str_eqb keep s_none = false ->
  dedup_idx f true subset keep = Err
  /\ op_dedup f true subset keep = Err
  /\ op_dedup_inplace f subset keep = Err.
Proof.
  intros Hn H1 H2 H3.
  assert (E : dedup_idx f true subset keep = Err).
  { unfold dedup_idx. cbv zeta. rewrite Hn. cbn [andb negb]. rewrite H1, H2, H3. reflexivity. }
  unfold op_dedup, op_dedup_inplace. rewrite E. auto.
Qed.

(* a subset column that the frame does not have is an error as soon as there is a row
   (whatever Keep is) *)
Theorem dedup_bad_subset f subset keep n :
  In n subset -> fget f n = None -> 1 <= nrows f ->
  dedup_idx f true subset keep = Err
  /\ op_dedup f true subset keep = Err
  /\ op_dedup_inplace f subset keep = Err.
Proof.
  intros Hin Hg Hr.
  assert (E : dedup_idx f true subset keep = Err).
  { unfold dedup_idx. cbv zeta.
    destruct subset as [|s0 subset']; [destruct Hin|]. cbn [null negb andb].
    match goal with |- (if ?c then _ else _) = _ => destruct c end; [reflexivity|].
    destruct (nrows f) as [|m]; [lia|]. cbn [seq map].
    rewrite (row_key_absent f (s0 :: subset') n 0 Hin Hg). reflexivity. }
  unfold op_dedup, op_dedup_inplace. rewrite E. auto.
Qed.

(* with no rows nothing is looked up: an unknown subset column goes unnoticed *)
Theorem dedup_bad_subset_norows f subset keep :
  nrows f = 0 ->
  dedup_idx f true subset keep = Err \/ dedup_idx f true subset keep = Ok [].
Proof.
  intros Hr. unfold dedup_idx. cbv zeta. rewrite Hr. cbn [seq map all_some].
  match goal with |- ((if ?c then _ else _) = _) \/ _ => destruct c end; [now left|right].
  unfold last_idx, none_idx. cbn. now repeat match goal with |- context [if ?c then _ else _] => destruct c end.
Qed.

(* no option struct: Keep = "first" on all columns; subset and keep are not looked at *)
Theorem dedup_default f subset keep :
  dedup_idx f false subset keep = dedup_idx f true (fkeys f) s_first
  /\ op_dedup f false subset keep = op_dedup f true (fkeys f) s_first
  /\ dedup_idx f false subset keep =
     match all_some (map (row_key f (fkeys f)) (seq 0 (nrows f))) with
     | None => Err
     | Some ks => Ok (first_idx ks 0 [])
     end.
Proof.
  assert (E : dedup_idx f false subset keep = dedup_idx f true (fkeys f) s_first).
  { unfold dedup_idx. cbv zeta. cbn [andb]. change (null s_first) with false. cbn [negb].
    destruct (null (fkeys f)); reflexivity. }
  split; [exact E|]. split; [unfold op_dedup; now rewrite E|].
  unfold dedup_idx. cbv zeta. cbn [andb]. rewrite (str_eqb_refl s_first). cbn [orb negb]. reflexivity.
Qed.

(* an empty Keep / an empty Subset in the option struct mean the defaults as well *)
Theorem dedup_empty_opts f : dedup_idx f true [] [] = dedup_idx f false [] [].
Proof. reflexivity. Qed.

Theorem dedup_idx_no_panic f has_opt subset keep : dedup_idx f has_opt subset keep <> Panic.
Proof.
  unfold dedup_idx. cbv zeta.
  match goal with |- (if ?c then _ else _) <> _ => destruct c end; [discriminate|].
  match goal with |- match ?c with _ => _ end <> _ => destruct c end; discriminate.
Qed.

Theorem op_dedup_no_panic f has_opt subset keep : op_dedup f has_opt subset keep <> Panic.
Proof.
  unfold op_dedup. pose proof (dedup_idx_no_panic f has_opt subset keep) as H.
  destruct (dedup_idx f has_opt subset keep); cbn [bind]; congruence.
Qed.
Theorem op_dedup_inplace_no_panic f subset keep : op_dedup_inplace f subset keep <> Panic.
Proof.
  unfold op_dedup_inplace. pose proof (dedup_idx_no_panic f true subset keep) as H.
  destruct (dedup_idx f true subset keep); cbn [bind]; congruence.
Qed.

(* ------------------------------------------------------------------ *)
(* 6. frame level: what a successful call keeps                         *)
(* ------------------------------------------------------------------ *)

Lemma all_some_seq {A} (g : nat -> option A) (d : A) : forall n a ks,
  all_some (map g (seq a n)) = Some ks ->
  length ks = n /\ forall i, i < n -> g (a + i) = Some (nth i ks d).
Proof.
  induction n as [|n IH]; intros a ks H; cbn [seq map all_some] in H.
  - inversion H; subst. split; [reflexivity|]. intros i Hi. lia.
  - destruct (g a) as [x|] eqn:G; [|discriminate].
    destruct (all_some (map g (seq (S a) n))) as [r|] eqn:R; [|discriminate].
    inversion H; subst. destruct (IH (S a) r R) as [L N]. split; [cbn [length]; now rewrite L|].
    intros [|i] Hi; cbn [nth].
    + now rewrite Nat.add_0_r.
    + replace (a + S i) with (S a + i) by lia. apply N. lia.
Qed.

(* inversion of a successful index computation: the key list has one key per row, the key
   of row i is row_key f names i, and the kept positions are those of sections 2-4 *)
Theorem dedup_idx_ok_inv f has_opt subset keep idxs :
  dedup_idx f has_opt subset keep = Ok idxs ->
  exists ks,
    length ks = nrows f
    /\ (forall i, i < nrows f -> row_key f (dd_names f has_opt subset) i = Some (nth i ks []))
    /\ ((dd_keep has_opt keep = s_first /\ idxs = first_idx ks 0 [])
        \/ (dd_keep has_opt keep = s_last /\ idxs = last_idx ks)
        \/ (dd_keep has_opt keep = s_none /\ idxs = none_idx ks))
    /\ StronglySorted lt idxs
    /\ Forall (fun i => i < nrows f) idxs.
Proof.
  unfold dedup_idx. cbv zeta. fold (dd_keep has_opt keep). fold (dd_names f has_opt subset).
  intros H.
  destruct (str_eqb (dd_keep has_opt keep) s_first) eqn:E1.
  - cbn [orb negb] in H.
    destruct (all_some (map (row_key f (dd_names f has_opt subset)) (seq 0 (nrows f)))) as [ks|] eqn:K;
      [|discriminate].
    inversion H; subst. destruct (all_some_seq _ [] _ _ _ K) as [L N]. exists ks.
    split; [assumption|]. split; [exact N|]. split; [left; split; [now apply str_eqb_eq|reflexivity]|].
    split; [apply first_idx_sorted | rewrite <- L; apply first_idx_range].
  - destruct (str_eqb (dd_keep has_opt keep) s_last) eqn:E2.
    + cbn [orb negb] in H.
      destruct (all_some (map (row_key f (dd_names f has_opt subset)) (seq 0 (nrows f)))) as [ks|] eqn:K;
        [|discriminate].
      inversion H; subst. destruct (all_some_seq _ [] _ _ _ K) as [L N]. exists ks.
      split; [assumption|]. split; [exact N|].
      split; [right; left; split; [now apply str_eqb_eq|reflexivity]|].
      split; [apply last_idx_sorted | rewrite <- L; apply last_idx_range].
    + destruct (str_eqb (dd_keep has_opt keep) s_none) eqn:E3; cbn [orb negb] in H; [|discriminate].
      destruct (all_some (map (row_key f (dd_names f has_opt subset)) (seq 0 (nrows f)))) as [ks|] eqn:K;
        [|discriminate].
      inversion H; subst. destruct (all_some_seq _ [] _ _ _ K) as [L N]. exists ks.
      split; [assumption|]. split; [exact N|].
      split; [right; right; split; [now apply str_eqb_eq|reflexivity]|].
      split; [apply none_idx_sorted | rewrite <- L; apply none_idx_range].
Qed.

(* the cells of a kept row are intact: with in-range positions [pick] is the plain
   selection of the rows at these positions *)
Lemma pick_nth (d : list cell) idxs :
  Forall (fun i => i < length d) idxs -> pick d idxs = map (fun i => nth i d CNil) idxs.
Proof.
  unfold pick. induction idxs as [|i t IH]; intros HF; cbn [flat_map map]; [reflexivity|].
  inversion HF as [|i' t' Hi Ht]; subst. rewrite (nth_opt_nth d i CNil Hi). cbn [app].
  now rewrite IH.
Qed.

Lemma pick_length (d : list cell) idxs :
  Forall (fun i => i < length d) idxs -> length (pick d idxs) = length idxs.
Proof. intros H. rewrite pick_nth by assumption. apply map_length. Qed.

Lemma rect_col_length f kc : rect f = true -> In kc f -> length (cdata (snd kc)) = nrows f.
Proof.
  unfold rect. rewrite forallb_forall. intros H Hin. specialize (H kc Hin). now apply Nat.eqb_eq in H.
Qed.

(* columns of the copy: same names, every column is the selection of the kept rows *)
Theorem op_dedup_ok f has_opt subset keep g :
  op_dedup f has_opt subset keep = Ok g ->
  exists idxs, dedup_idx f has_opt subset keep = Ok idxs
    /\ fkeys g = fkeys f
    /\ map (fun kc => cdata (snd kc)) g = map (fun kc => pick (cdata (snd kc)) idxs) f
    /\ names_ok g = true.
Proof.
  unfold op_dedup. destruct (dedup_idx f has_opt subset keep) as [idxs| |]; cbn [bind]; intros H;
    try discriminate. inversion H; subst. exists idxs. split; [reflexivity|].
  unfold rekey_cols, fkeys. rewrite !map_map. cbn [fst snd cdata]. split; [|split].
  - apply map_ext. now intros [k c].
  - apply map_ext. now intros [k c].
  - unfold names_ok. rewrite forallb_forall. intros kc Hin. apply in_map_iff in Hin.
    destruct Hin as [[k c] [E _]]. subst kc. cbn. apply str_eqb_refl.
Qed.

Theorem op_dedup_inplace_ok f subset keep g :
  op_dedup_inplace f subset keep = Ok g ->
  exists idxs, dedup_idx f true subset keep = Ok idxs
    /\ fkeys g = fkeys f
    /\ map (fun kc => cdata (snd kc)) g = map (fun kc => pick (cdata (snd kc)) idxs) f
    /\ map (fun kc => cname (snd kc)) g = map (fun kc => cname (snd kc)) f.
Proof.
  unfold op_dedup_inplace. destruct (dedup_idx f true subset keep) as [idxs| |]; cbn [bind]; intros H;
    try discriminate. inversion H; subst. exists idxs. split; [reflexivity|].
  unfold map_cols, fkeys. rewrite !map_map. cbn [fst snd cdata cname]. split; [|split].
  - apply map_ext. now intros [k c].
  - apply map_ext. now intros [k c].
  - apply map_ext. now intros [k c].
Qed.

(* the in-place variant and the copying variant fail together and keep the same rows *)
Theorem dedup_inplace_same_outcome f subset keep :
  (op_dedup f true subset keep = Err <-> op_dedup_inplace f subset keep = Err)
  /\ ((exists g, op_dedup f true subset keep = Ok g) <-> (exists g', op_dedup_inplace f subset keep = Ok g')).
Proof.
  unfold op_dedup, op_dedup_inplace.
  destruct (dedup_idx f true subset keep) as [idxs| |]; cbn [bind]; split; split; intro H;
    try discriminate; try reflexivity; try (destruct H as [x H]; discriminate); eauto.
Qed.

Theorem dedup_inplace_same_rows f subset keep g g' :
  op_dedup f true subset keep = Ok g -> op_dedup_inplace f subset keep = Ok g' ->
  fkeys g = fkeys g'
  /\ map (fun kc => cdata (snd kc)) g = map (fun kc => cdata (snd kc)) g'
  /\ exists idxs, dedup_idx f true subset keep = Ok idxs
       /\ fkeys g = fkeys f
       /\ map (fun kc => cdata (snd kc)) g = map (fun kc => pick (cdata (snd kc)) idxs) f.
Proof.
  intros H1 H2. apply op_dedup_ok in H1. apply op_dedup_inplace_ok in H2.
  destruct H1 as [i1 [D1 [K1 [C1 _]]]]. destruct H2 as [i2 [D2 [K2 [C2 _]]]].
  rewrite D1 in D2. inversion D2; subst i2.
  split; [congruence|]. split; [congruence|]. exists i1. auto.
Qed.

(* on a rectangular frame the result is the subsequence of the source rows at the kept
   positions: row r of every result column is row (nth r idxs) of the source column *)
Theorem dedup_rows_intact f has_opt subset keep idxs :
  rect f = true -> dedup_idx f has_opt subset keep = Ok idxs ->
  forall kc, In kc f ->
    pick (cdata (snd kc)) idxs = map (fun i => nth i (cdata (snd kc)) CNil) idxs
    /\ length (pick (cdata (snd kc)) idxs) = length idxs.
Proof.
  intros Hr Hd kc Hin. apply dedup_idx_ok_inv in Hd.
  destruct Hd as [ks [_ [_ [_ [_ HF]]]]].
  assert (HF' : Forall (fun i => i < length (cdata (snd kc))) idxs)
    by now rewrite (rect_col_length f kc Hr Hin).
  split; [now apply pick_nth | now apply pick_length].
Qed.

(* the result of DropDuplicates on a rectangular frame is rectangular *)
Theorem op_dedup_rect f has_opt subset keep g :
  rect f = true -> op_dedup f has_opt subset keep = Ok g -> rect g = true.
Proof.
  intros Hr H. unfold op_dedup in H.
  destruct (dedup_idx f has_opt subset keep) as [idxs| |] eqn:D; cbn [bind] in H; try discriminate.
  inversion H; subst. unfold rect. rewrite forallb_forall. intros kc Hin.
  unfold rekey_cols in Hin. apply in_map_iff in Hin. destruct Hin as [kc0 [E Hin0]]. subst kc.
  cbn [snd cdata]. apply Nat.eqb_eq.
  destruct (dedup_rows_intact f has_opt subset keep idxs Hr D kc0 Hin0) as [_ L]. rewrite L.
  destruct f as [|[k0 c0] t]; [destruct Hin0|]. cbn [rekey_cols map nrows fst snd cdata].
  destruct (dedup_rows_intact _ has_opt subset keep idxs Hr D (k0, c0) ltac:(now left)) as [_ L0].
  cbn [snd] in L0. now rewrite L0.
Qed.

(* ------------------------------------------------------------------ *)
(* 7. frame level: the kept rows in terms of the cells of the frame     *)
(* ------------------------------------------------------------------ *)

(* rows i and j are identical on the compared columns *)
Definition same_row (f : frame) (names : list str) (i j : nat) : bool :=
  match row_key f names i, row_key f names j with
  | Some a, Some b => keys_eqb a b
  | _, _ => false
  end.

Lemma same_row_keys f names ks i j :
  (forall i, i < nrows f -> row_key f names i = Some (nth i ks [])) ->
  i < nrows f -> j < nrows f -> same_row f names i j = keys_eqb (nth i ks []) (nth j ks []).
Proof. intros N Hi Hj. unfold same_row. now rewrite (N i Hi), (N j Hj). Qed.

Theorem dedup_first_rows f has_opt subset keep idxs :
  dedup_idx f has_opt subset keep = Ok idxs -> dd_keep has_opt keep = s_first ->
  forall i, In i idxs <->
    (i < nrows f /\ forall j, j < i -> same_row f (dd_names f has_opt subset) j i = false).
Proof.
  intros H Hk i. apply dedup_idx_ok_inv in H. destruct H as [ks [L [N [C _]]]].
  assert (E : idxs = first_idx ks 0 []).
  { destruct C as [[_ E]|[[K _]|[K _]]]; [assumption| |]; rewrite Hk in K; discriminate. }
  subst idxs. rewrite first_idx_spec_any, L. split; intros [Hi Hj]; (split; [assumption|]); intros j Hlt.
  - rewrite (same_row_keys f _ ks j i N) by lia. now apply Hj.
  - rewrite <- (same_row_keys f _ ks j i N) by lia. now apply Hj.
Qed.

Theorem dedup_last_rows f has_opt subset keep idxs :
  dedup_idx f has_opt subset keep = Ok idxs -> dd_keep has_opt keep = s_last ->
  forall i, In i idxs <->
    (i < nrows f /\ forall j, i < j < nrows f -> same_row f (dd_names f has_opt subset) j i = false).
Proof.
  intros H Hk i. apply dedup_idx_ok_inv in H. destruct H as [ks [L [N [C _]]]].
  assert (E : idxs = last_idx ks).
  { destruct C as [[K _]|[[_ E]|[K _]]]; [|assumption|]; rewrite Hk in K; discriminate. }
  subst idxs. rewrite last_idx_spec_any, L. split; intros [Hi Hj]; (split; [assumption|]); intros j Hlt.
  - rewrite (same_row_keys f _ ks j i N) by lia. now apply Hj.
  - rewrite <- (same_row_keys f _ ks j i N) by lia. now apply Hj.
Qed.

Theorem dedup_none_rows f has_opt subset keep idxs :
  dedup_idx f has_opt subset keep = Ok idxs -> dd_keep has_opt keep = s_none ->
  forall i, In i idxs <->
    (i < nrows f /\ same_row f (dd_names f has_opt subset) i i = true
     /\ forall j, j < nrows f -> j <> i -> same_row f (dd_names f has_opt subset) j i = false).
Proof.
  intros H Hk i. apply dedup_idx_ok_inv in H. destruct H as [ks [L [N [C _]]]].
  assert (E : idxs = none_idx ks).
  { destruct C as [[K _]|[[K _]|[_ E]]]; [| |assumption]; rewrite Hk in K; discriminate. }
  subst idxs. rewrite none_idx_spec_any, L.
  split; intros [Hi [R Hj]]; (split; [assumption|]); (split; [|intros j Hlt Hne]).
  - now rewrite (same_row_keys f _ ks i i N).
  - rewrite (same_row_keys f _ ks j i N) by lia. now apply Hj.
  - now rewrite <- (same_row_keys f _ ks i i N).
  - rewrite <- (same_row_keys f _ ks j i N) by lia. now apply Hj.
Qed.

(* frame-level "no false merge": a row removed by keep = first has an identical kept row *)
Theorem dedup_first_no_false_merge f has_opt subset keep idxs i :
  dedup_idx f has_opt subset keep = Ok idxs -> dd_keep has_opt keep = s_first ->
  i < nrows f -> ~ In i idxs ->
  exists j, j < i /\ In j idxs /\ same_row f (dd_names f has_opt subset) j i = true.
Proof.
  intros H Hk Hi Hn. apply dedup_idx_ok_inv in H. destruct H as [ks [L [N [C _]]]].
  assert (E : idxs = first_idx ks 0 []).
  { destruct C as [[_ E]|[[K _]|[K _]]]; [assumption| |]; rewrite Hk in K; discriminate. }
  subst idxs. destruct (first_no_false_merge ks i ltac:(lia) Hn) as [j [Hj [Hin He]]].
  exists j. split; [assumption|]. split; [assumption|].
  now rewrite (same_row_keys f _ ks j i N) by lia.
Qed.

(* success on rectangular frames with known columns and a valid Keep *)
Lemma fget_in_keys (f : frame) k :
  In k (fkeys f) -> exists c k', fget f k = Some c /\ In (k', c) f.
Proof.
  induction f as [|[k0 c0] t IH]; intros H; [destruct H|]. cbn [fget].
  destruct (str_eqb k k0) eqn:E.
  - exists c0, k0. split; [reflexivity|now left].
  - destruct H as [H|H].
    + cbn [fst] in H. subst k0. rewrite str_eqb_refl in E. discriminate.
    + destruct (IH H) as [c [k' [G I]]]. exists c, k'. split; [assumption|now right].
Qed.

Lemma all_some_map_ok {A B} (g : A -> option B) l :
  (forall x, In x l -> exists y, g x = Some y) -> exists r, all_some (map g l) = Some r.
Proof.
  induction l as [|x t IH]; intros H; cbn [map all_some].
  - now exists [].
  - destruct (H x ltac:(now left)) as [y Hy]. rewrite Hy.
    destruct IH as [r Hr]; [intros z Hz; apply H; now right|]. rewrite Hr. now exists (y :: r).
Qed.

Theorem dedup_ok f has_opt subset keep :
  rect f = true ->
  (forall n, In n (dd_names f has_opt subset) -> In n (fkeys f)) ->
  (dd_keep has_opt keep = s_first \/ dd_keep has_opt keep = s_last \/ dd_keep has_opt keep = s_none) ->
  exists idxs, dedup_idx f has_opt subset keep = Ok idxs.
Proof.
  intros Hr Hn Hk. unfold dedup_idx. cbv zeta.
  fold (dd_keep has_opt keep). fold (dd_names f has_opt subset).
  assert (V : negb (str_eqb (dd_keep has_opt keep) s_first || str_eqb (dd_keep has_opt keep) s_last
                    || str_eqb (dd_keep has_opt keep) s_none) = false).
  { destruct Hk as [E|[E|E]]; rewrite E; reflexivity. }
  rewrite V.
  destruct (all_some_map_ok (row_key f (dd_names f has_opt subset)) (seq 0 (nrows f))) as [ks K].
  - intros i Hi. apply in_seq in Hi. unfold row_key. apply all_some_map_ok. intros n Hin.
    destruct (fget_in_keys f n (Hn n Hin)) as [c [k' [G I]]]. rewrite G.
    pose proof (rect_col_length f (k', c) Hr I) as Lc. cbn [snd] in Lc.
    exists (nth i (cdata c) CNil). apply nth_opt_nth. lia.
  - rewrite K. eauto.
Qed.

Corollary dedup_default_ok f subset keep :
  rect f = true -> exists idxs, dedup_idx f false subset keep = Ok idxs.
Proof. intros Hr. apply dedup_ok; [assumption | intros n H; exact H | now left]. Qed.

(* ------------------------------------------------------------------ *)
(* 8. examples                                                          *)
(* ------------------------------------------------------------------ *)

Definition b_x : str := [120]%N.                        (* "x" *)
Definition b_z : str := [122]%N.                        (* "z" *)
Definition b_a : str := [97]%N.                         (* "a" *)
Definition b_b : str := [98]%N.                         (* "b" *)
Definition b_xby : str := [120; 124; 98; 58; 121]%N.    (* "x|b:y" *)
Definition b_ybz : str := [121; 124; 98; 58; 122]%N.    (* "y|b:z" *)
Definition b_nil : str := [110; 105; 108]%N.            (* "nil" *)
Definition b_1 : str := [49]%N.                         (* "1" *)

(* keys that a rendering of the row to text could confuse; all are distinct under == *)
Definition ks_ex : list (list cell) :=
  [ [CS b_xby; CS b_z];               (*  0  "x|b:y", "z"                      *)
    [CS b_x; CS b_ybz];               (*  1  "x", "y|b:z"                      *)
    [CNil; CS b_a];                   (*  2  nil                               *)
    [CS b_nil; CS b_a];               (*  3  "nil"                             *)
    [CI KInt 1; CS b_a];              (*  4  int 1                             *)
    [CS b_1; CS b_a];                 (*  5  "1"                               *)
    [CS b_xby; CS b_z];               (*  6  = row 0                           *)
    [CF KF64 (FFin 0); CS b_a];       (*  7  +0.0                              *)
    [CF KF64 FNegZero; CS b_a];       (*  8  -0.0, == row 7                    *)
    [CF KF64 FNaN; CS b_a];           (*  9  NaN                               *)
    [CF KF64 FNaN; CS b_a];           (* 10  NaN again: not equal to row 9     *)
    [CI KInt64 1; CS b_a];            (* 11  int64 1: other dynamic type       *)
    [CF KF32 (FFin 0); CS b_a];       (* 12  float32 0: other dynamic type     *)
    [CS s_nil; CS b_a] ].             (* 13  "<nil>"                           *)

Example ex_tricky_kept :
  first_idx ks_ex 0 [] = [0; 1; 2; 3; 4; 5; 7; 9; 10; 11; 12; 13]
  /\ last_idx ks_ex = [1; 2; 3; 4; 5; 6; 8; 9; 10; 11; 12; 13]
  /\ none_idx ks_ex = [1; 2; 3; 4; 5; 11; 12; 13].
Proof. vm_compute. repeat split. Qed.

(* pairwise: the look-alike keys are different rows *)
Example ex_tricky_distinct :
  keys_eqb [CS b_xby; CS b_z] [CS b_x; CS b_ybz] = false
  /\ cell_eqb CNil (CS b_nil) = false
  /\ cell_eqb CNil (CS s_nil) = false
  /\ cell_eqb (CI KInt 1) (CS b_1) = false
  /\ cell_eqb (CI KInt 1) (CI KInt64 1) = false
  /\ cell_eqb (CF KF64 (FFin 0)) (CF KF64 FNegZero) = true
  /\ cell_eqb (CF KF64 FNaN) (CF KF64 FNaN) = false.
Proof. vm_compute. repeat split. Qed.

(* the rows 0..8 are proper keys: hypotheses of first_idx_spec / last_idx_spec / none_idx_spec *)
Example ex_proper :
  forallb (fun k => keys_eqb k k) (firstn 9 ks_ex) = true
  /\ first_idx (firstn 9 ks_ex) 0 [] = [0; 1; 2; 3; 4; 5; 7]
  /\ last_idx (firstn 9 ks_ex) = [1; 2; 3; 4; 5; 6; 8]
  /\ none_idx (firstn 9 ks_ex) = [1; 2; 3; 4; 5].
Proof. vm_compute. repeat split. Qed.

(* hypotheses of first_no_false_merge / last_no_false_merge: rows 6 and 8 are removed by
   first, rows 0 and 7 by last *)
Example ex_removed :
  existsb (Nat.eqb 6) (first_idx ks_ex 0 []) = false
  /\ existsb (Nat.eqb 8) (first_idx ks_ex 0 []) = false
  /\ keys_eqb (nth 0 ks_ex []) (nth 6 ks_ex []) = true
  /\ keys_eqb (nth 7 ks_ex []) (nth 8 ks_ex []) = true
  /\ existsb (Nat.eqb 0) (last_idx ks_ex) = false
  /\ existsb (Nat.eqb 7) (last_idx ks_ex) = false.
Proof. vm_compute. repeat split. Qed.

(* keep = none removes the NaN rows 9 and 10 although no row equals them: the middle
   conjunct of none_idx_spec_any is needed *)
Example ex_none_nan :
  none_idx [[CF KF64 FNaN]; [CI KInt 1]] = [1]
  /\ first_idx [[CF KF64 FNaN]; [CI KInt 1]] 0 [] = [0; 1]
  /\ last_idx [[CF KF64 FNaN]; [CI KInt 1]] = [0; 1].
Proof. vm_compute. repeat split. Qed.

(* a frame: column a = 1, 1, 2, "1", nil, "nil"; column b = x, z, a, a, a, a *)
Definition f_ex : frame :=
  [ (b_a, (b_a, [CI KInt 1; CI KInt 1; CI KInt 2; CS b_1; CNil; CS b_nil]));
    (b_b, (b_b, [CS b_x; CS b_z; CS b_a; CS b_a; CS b_a; CS b_a])) ].

Example ex_frame :
  wf_frame f_ex = true
  (* subset a, keep last: only the first of the two int 1 rows goes *)
  /\ op_dedup f_ex true [b_a] s_last =
     Ok [ (b_a, (b_a, [CI KInt 1; CI KInt 2; CS b_1; CNil; CS b_nil]));
          (b_b, (b_b, [CS b_z; CS b_a; CS b_a; CS b_a; CS b_a])) ]
  (* subset b, empty Keep = first *)
  /\ op_dedup f_ex true [b_b] [] =
     Ok [ (b_a, (b_a, [CI KInt 1; CI KInt 1; CI KInt 2]));
          (b_b, (b_b, [CS b_x; CS b_z; CS b_a])) ]
  (* subset b, keep none; in place gives the same rows *)
  /\ op_dedup f_ex true [b_b] s_none =
     Ok [ (b_a, (b_a, [CI KInt 1; CI KInt 1])); (b_b, (b_b, [CS b_x; CS b_z])) ]
  /\ op_dedup_inplace f_ex [b_b] s_none = op_dedup f_ex true [b_b] s_none
  (* no option struct: all columns, first; every row of f_ex is distinct *)
  /\ op_dedup f_ex false [b_b] s_none = Ok f_ex
  (* hypotheses of dedup_bad_subset and dedup_bad_keep *)
  /\ fget f_ex b_z = None /\ 1 <= nrows f_ex
  /\ op_dedup f_ex true [b_b; b_z] s_none = Err
  /\ null b_xby = false /\ str_eqb b_xby s_first = false /\ str_eqb b_xby s_last = false
  /\ str_eqb b_xby s_none = false
  /\ op_dedup f_ex true [b_b] b_xby = Err
  /\ op_dedup_inplace f_ex [b_b] b_xby = Err.
Proof. vm_compute. repeat split; lia. Qed.

Print Assumptions cell_eqb_sym.
Print Assumptions cell_eqb_trans.
Print Assumptions cell_eqb_refl_iff.
Print Assumptions keys_eqb_trans.
Print Assumptions first_idx_spec.
Print Assumptions first_idx_spec_any.
Print Assumptions first_idx_sorted.
Print Assumptions first_idx_range.
Print Assumptions first_no_false_merge.
Print Assumptions first_one_per_class.
Print Assumptions first_covers.
Print Assumptions last_idx_spec.
Print Assumptions last_idx_sorted.
Print Assumptions last_idx_range.
Print Assumptions last_no_false_merge.
Print Assumptions last_one_per_class.
Print Assumptions none_idx_spec.
Print Assumptions none_idx_spec_any.
Print Assumptions none_idx_sorted.
Print Assumptions none_idx_range.
Print Assumptions none_sub_first_last.
Print Assumptions dedup_bad_keep.
Print Assumptions dedup_bad_subset.
Print Assumptions dedup_bad_subset_norows.
Print Assumptions dedup_default.
Print Assumptions op_dedup_no_panic.
Print Assumptions op_dedup_inplace_no_panic.
Print Assumptions dedup_idx_ok_inv.
Print Assumptions op_dedup_ok.
Print Assumptions op_dedup_inplace_ok.
Print Assumptions dedup_inplace_same_outcome.
Print Assumptions dedup_inplace_same_rows.
Print Assumptions dedup_rows_intact.
Print Assumptions op_dedup_rect.
Print Assumptions dedup_first_rows.
Print Assumptions dedup_last_rows.
Print Assumptions dedup_none_rows.
Print Assumptions dedup_first_no_false_merge.
Print Assumptions dedup_ok.
Print Assumptions dedup_default_ok.
