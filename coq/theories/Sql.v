(* Sql.v - model of goframe's SQL export (sql_write.go, sql_dialect.go) and import
   (sql_read.go): identifier quoting and its lexer, statement generation, the driver-call
   trace of ToSQL under a fault or a cancellation at any call, an ideal transactional
   table store, and fromSQLRows under the NULL policies.  Definitions only. *)
From GF Require Export Csv.
From Coq Require Import String Ascii.

Definition lit (s : string) : str := map N_of_ascii (list_ascii_of_string s).
Arguments lit s%string_scope.

(* ---------- identifiers ---------- *)
Inductive dialect := DSqlite | DPostgres | DMysql.
Definition quote_char (d : dialect) : N := match d with DMysql => 96%N | _ => 34%N end.

Fixpoint esc (q : N) (s : str) : str :=
  match s with
  | [] => []
  | c :: r => if N.eqb c q then q :: q :: esc q r else c :: esc q r
  end.
Definition quote_id (q : N) (s : str) : str := q :: esc q s ++ [q].

(* the dialect's lexer for a quoted identifier: after the opening quote, a doubled quote
   is an escaped quote character, a single one ends the identifier; backslash is ordinary *)
Fixpoint lex_body (q : N) (fuel : nat) (s : str) (acc : str) : option (str * str) :=
  match fuel with
  | O => None
  | S f =>
    match s with
    | [] => None
    | c :: r =>
      if N.eqb c q then
        match r with
        | c2 :: r2 => if N.eqb c2 q then lex_body q f r2 (q :: acc) else Some (rev acc, r)
        | [] => Some (rev acc, [])
        end
      else lex_body q f r (c :: acc)
    end
  end.
Definition lex_qid (q : N) (s : str) : option (str * str) :=
  match s with
  | c :: r => if N.eqb c q then lex_body q (S (List.length r)) r [] else None
  | [] => None
  end.

(* ---------- dialects and options ---------- *)
Definition lower_byte (c : N) : N := if (N.leb 65 c && N.leb c 90)%bool then (c + 32)%N else c.
Definition to_lower (s : str) : str := map lower_byte s.
Definition dialect_of (name : str) : option dialect :=
  let l := to_lower name in
  if str_eqb l (lit "sqlite") || str_eqb l (lit "sqlite3") then Some DSqlite
  else if str_eqb l (lit "postgres") || str_eqb l (lit "postgresql") || str_eqb l (lit "pq") then Some DPostgres
  else if str_eqb l (lit "mysql") then Some DMysql
  else None.

Definition placeholder (d : dialect) (i : Z) : str :=
  match d with DPostgres => 36%N :: dec_Z i | _ => [63%N] end.

Definition exists_sql (d : dialect) : str :=
  match d with
  | DSqlite => lit "SELECT name FROM sqlite_master WHERE type='table' AND name=" ++ placeholder d 1
  | DPostgres => lit "SELECT tablename FROM pg_tables WHERE schemaname='public' AND tablename=" ++ placeholder d 1
  | DMysql => lit "SELECT table_name FROM information_schema.tables WHERE table_schema=DATABASE() AND table_name=" ++ placeholder d 1
  end.

(* GoTypeToSQLType applied to the dynamic type of a cell *)
Definition sql_type (d : dialect) (c : cell) : str :=
  match d, c with
  | DSqlite, CI _ _ => lit "INTEGER"
  | DSqlite, CF _ _ => lit "REAL"
  | DSqlite, CB _ => lit "INTEGER"
  | DSqlite, CT _ => lit "TIMESTAMP"
  | DPostgres, CI (KInt | KInt8 | KInt16 | KInt32 | KUint8 | KUint16) _ => lit "INTEGER"
  | DPostgres, CI _ _ => lit "BIGINT"
  | DPostgres, CF KF32 _ => lit "REAL"
  | DPostgres, CF KF64 _ => lit "DOUBLE PRECISION"
  | DPostgres, CB _ => lit "BOOLEAN"
  | DPostgres, CT _ => lit "TIMESTAMP"
  | DMysql, CI (KUint8 | KUint16) _ => lit "INT"
  | DMysql, CI _ _ => lit "BIGINT"
  | DMysql, CF KF32 _ => lit "FLOAT"
  | DMysql, CF KF64 _ => lit "DOUBLE"
  | DMysql, CB _ => lit "TINYINT(1)"
  | DMysql, CT _ => lit "DATETIME"
  | _, _ => lit "TEXT"
  end.
(* inferGoTypeFromColumn: the first non-nil cell decides; all nil means text *)
Definition first_non_nil (l : list cell) : cell :=
  match filter (fun c => negb (is_nil c)) l with c :: _ => c | [] => CNil end.
Definition col_sql_type (d : dialect) (tm : option (list (str * str))) (k : str) (data : list cell) : str :=
  match tm with
  | Some m => match fget m k with Some t => t | None => sql_type d (first_non_nil data) end
  | None => sql_type d (first_non_nil data)
  end.

(* convertGoTypeToSQLNullable followed by database/sql's Valuer conversion: what the driver receives *)
Definition bound_value (c : cell) : cell :=
  match c with
  | CI _ z => CI KInt64 z
  | CF _ x => CF KF64 x
  | _ => c
  end.

(* ---------- statements ---------- *)
Inductive stmt :=
| SDrop (t : str)
| SCreate (t : str) (cols : list (str * str))          (* name, SQL type text *)
| SInsert (t : str) (cols : list str) (rws : list (list cell)).

Fixpoint join_sep (sep : str) (l : list str) : str :=
  match l with
  | [] => []
  | [s] => s
  | s :: t => s ++ sep ++ join_sep sep t
  end.
Definition comma_sp : str := [44; 32]%N.

Fixpoint seqZ (start : Z) (n : nat) : list Z :=
  match n with O => [] | S k => start :: seqZ (start + 1) k end.

Definition render_stmt (d : dialect) (s : stmt) : str * list cell :=
  let q := quote_char d in
  match s with
  | SDrop t => (lit "DROP TABLE " ++ quote_id q t, [])
  | SCreate t cols =>
    (lit "CREATE TABLE " ++ quote_id q t ++ lit " (" ++
       join_sep comma_sp (map (fun ct => quote_id q (fst ct) ++ [32%N] ++ snd ct) cols) ++ lit ")", [])
  | SInsert t cols rws =>
    let nc := List.length cols in
    let rowph := fun (r : nat) =>
      lit "(" ++ join_sep comma_sp (map (placeholder d) (seqZ (Z.of_nat (r * nc) + 1) nc)) ++ lit ")" in
    (lit "INSERT INTO " ++ quote_id q t ++ lit " (" ++ join_sep comma_sp (map (quote_id q) cols) ++ lit ") VALUES " ++
       join_sep comma_sp (map rowph (seq 0 (List.length rws))),
     map bound_value (List.concat rws))
  end.

(* the batches: consecutive chunks of at most bs rows *)
Fixpoint chunks_fuel {A} (fuel : nat) (bs : nat) (l : list A) : list (list A) :=
  match fuel with
  | O => []
  | S f =>
    match l with
    | [] => []
    | _ => firstn bs l :: chunks_fuel f bs (skipn bs l)
    end
  end.
Definition chunks {A} (bs : nat) (l : list A) : list (list A) := chunks_fuel (List.length l) bs l.

Definition frame_rows_cells (f : frame) : list (list cell) :=
  map (fun r => map snd r) (rows f).

(* ---------- options ---------- *)
Record wopts := {
  w_has : bool;                              (* an option struct was passed *)
  w_ifexists : str;
  w_dialect : str;
  w_batch : Z;
  w_typemap : option (list (str * str))
}.
Definition s_fail := lit "fail". Definition s_replace := lit "replace". Definition s_append := lit "append".
(* Ok (dialect, ifexists, batch size, typemap) or Err; no driver call is made during validation *)
Definition resolve_opts (o : wopts) : out (dialect * str * Z * option (list (str * str))) :=
  let ife := w_ifexists o in
  if w_has o && negb (null ife) && negb (str_eqb ife s_fail || str_eqb ife s_replace || str_eqb ife s_append) then Err
  else if w_has o && (w_batch o <? 0) then Err
  else
    let dn := if w_has o then w_dialect o else [] in
    if null dn then Err else
    match dialect_of dn with
    | None => Err
    | Some d =>
      Ok (d,
          (if w_has o && negb (null ife) then ife else s_fail),
          (if w_has o && (0 <? w_batch o) then w_batch o else 1000),
          (if w_has o then w_typemap o else None))
    end.

(* ---------- the table store ---------- *)
Definition table := (list (str * str) * list (list cell))%type.   (* columns (name, type), rows *)
Definition store := list (str * table).                           (* sorted by table name *)

Fixpoint index_of (k : str) (l : list str) (i : nat) : option nat :=
  match l with
  | [] => None
  | x :: t => if str_eqb k x then Some i else index_of k t (S i)
  end.
Definition place_row (tcols : list str) (cols : list str) (r : list cell) : list cell :=
  map (fun tc => match index_of tc cols 0 with
                 | Some i => match nth_opt r i with Some c => c | None => CNil end
                 | None => CNil end) tcols.
(* executing one statement; None = the engine rejects it *)
Definition exec_stmt (st : store) (s : stmt) : option store :=
  match s with
  | SDrop t => if fhas st t then Some (fdel st t) else None
  | SCreate t cols =>
    if fhas st t || has_dup (map fst cols) then None else Some (fset st t (cols, []))
  | SInsert t cols rws =>
    match fget st t with
    | None => None
    | Some (tcols, trows) =>
      if forallb (fun c => existsb (str_eqb c) (map fst tcols)) cols
      then Some (fset st t (tcols, trows ++ map (fun r => place_row (map fst tcols) cols (map bound_value r)) rws))
      else None
    end
  end.

(* ---------- the driver-call trace ---------- *)
(* kind: 0 begin, 1 query, 2 exec, 3 commit, 4 rollback *)
Definition call := (N * str * list cell)%type.

(* the statements of one export after the existence query, given whether the table exists *)
Definition plan_stmts (d : dialect) (ife : str) (bs : Z) (tm : option (list (str * str)))
           (t : str) (f : frame) (present : bool) : out (list stmt) :=
  if present && str_eqb ife s_fail then Err else
  let drop := if present && str_eqb ife s_replace then [SDrop t] else [] in
  let create := if negb present || str_eqb ife s_replace
                then [SCreate t (map (fun kc => (fst kc, col_sql_type d tm (fst kc) (cdata (snd kc)))) f)] else [] in
  let inserts := if Nat.eqb (nrows f) 0 then []
                 else let rws := frame_rows_cells f in
                      (* the batch size is clamped to the row count before it becomes a nat: same chunks *)
                      map (SInsert t (fkeys f)) (chunks (Z.to_nat (Z.min bs (Z.of_nat (List.length rws)))) rws) in
  Ok (drop ++ create ++ inserts).

(* run the statements: n = driver calls made so far; fault = 1-based index of the call that
   fails (0 none); cancel = the context is cancelled once that many calls have been processed
   (0 never): later calls never reach the driver.
   Returns (calls in reverse, working store, true iff all statements succeeded). *)
Fixpoint run_stmts (d : dialect) (ss : list stmt) (st : store) (n fault cancel : nat) (acc : list call)
  : list call * store * bool * nat :=
  match ss with
  | [] => (acc, st, true, n)
  | s :: rest =>
    if negb (Nat.eqb cancel 0) && Nat.leb cancel n then (acc, st, false, n) else
    let '(text, args) := render_stmt d s in
    let acc' := (2%N, text, args) :: acc in
    let n' := S n in
    if Nat.eqb n' fault then (acc', st, false, n') else
    match exec_stmt st s with
    | None => (acc', st, false, n')
    | Some st' => run_stmts d rest st' n' fault cancel acc'
    end
  end.

Definition c_begin : call := (0%N, [], []).
Definition c_commit : call := (3%N, [], []).
Definition c_rollback : call := (4%N, [], []).

(* the calls of the transactional body (ToSQLTxContext): (calls reversed, store, ok, n) *)
Definition tx_body (o : wopts) (t : str) (f : frame) (st : store) (n fault cancel : nat)
  : list call * store * bool * nat :=
  match resolve_opts o with
  | Err | Panic => ([], st, false, n)
  | Ok (d, ife, bs, tm) =>
    if negb (Nat.eqb cancel 0) && Nat.leb cancel n then ([], st, false, n) else
    let q : call := (1%N, exists_sql d, [CS t]) in
    let n1 := S n in
    if Nat.eqb n1 fault then ([q], st, false, n1) else
    match plan_stmts d ife bs tm t f (fhas st t) with
    | Ok ss => run_stmts d ss st n1 fault cancel [q]
    | _ => ([q], st, false, n1)
    end
  end.

(* ToSQL / ToSQLContext: (trace, committed store afterwards, ok) *)
Definition tosql (o : wopts) (t : str) (f : frame) (st : store) (fault cancel : nat)
  : list call * store * bool :=
  if Nat.eqb fault 1 then ([c_begin], st, false) else
  let '(calls, st', ok, n) := tx_body o t f st 1 fault cancel in
  let trace := c_begin :: rev calls in
  if negb ok then (trace ++ [c_rollback], st, false)
  else if negb (Nat.eqb cancel 0) && Nat.leb cancel n then (trace ++ [c_rollback], st, false)
  else if Nat.eqb (S n) fault then (trace ++ [c_commit], st, false)
  else (trace ++ [c_commit], st', true).
(* ToSQLTx / ToSQLTxContext on the caller's transaction: the calls made during the call *)
Definition tosql_tx (o : wopts) (t : str) (f : frame) (st : store) (fault : nat)
  : list call * store * bool :=
  let '(calls, st', ok, _) := tx_body o t f st 1 fault 0 in
  (rev calls, st', ok).
(* ToSQLTxContext with a context that is cancelled once `cancel` calls have been processed (the caller's Begin
   is call 1): later calls never reach the driver; the caller's transaction is still neither committed nor
   rolled back by the library *)
Definition tosql_tx_c (o : wopts) (t : str) (f : frame) (st : store) (fault cancel : nat)
  : list call * store * bool :=
  let '(calls, st', ok, _) := tx_body o t f st 1 fault cancel in
  (rev calls, st', ok).
