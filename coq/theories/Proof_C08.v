(* Proof_C08.v - row/column selection: Head, Tail, RowSlice, Filter, DropRow, Row, Iloc,
   DropColumn return exactly the requested cells, and whole rows stay together
   ("L1 = L0": the operations of Ops.v expressed with pick/firstn/skipn/seq/filter/map). *)
From GF Require Import Ops Lemmas.
From Coq Require Import Lia.
Local Open Scope nat_scope.
#[local] Arguments N.eqb : simpl never.

(* the running example: two columns "a", "b", three rows *)
Definition exf : frame :=
  [([97%N], ([97%N], [CI KInt 1; CI KInt 2; CI KInt 3]));
   ([98%N], ([98%N], [CS [120%N]; CNil; CB true]))].
Example exf_wf : wf_frame exf = true /\ rect exf = true /\ nrows exf = 3 /\ ncols exf = 2.
Proof. vm_compute. repeat split. Qed.

(* ------------------------------------------------------------------ *)
(* 0. small list facts                                                  *)
(* ------------------------------------------------------------------ *)
Lemma flat_map_single {A B} (g : A -> list B) (h : A -> B) l :
  (forall x, In x l -> g x = [h x]) -> flat_map g l = map h l.
Proof.
  induction l as [|x l IH]; intros H; [reflexivity|].
  cbn [flat_map map]. rewrite (H x (or_introl eq_refl)). rewrite IH; [reflexivity|].
  intros y Hy. apply H. right. exact Hy.
Qed.

Lemma flat_map_filter_skip {A B} (g : A -> list B) (p : A -> bool) l :
  (forall x, p x = false -> g x = []) -> flat_map g (filter p l) = flat_map g l.
Proof.
  intros H. induction l as [|x l IH]; [reflexivity|].
  cbn [filter flat_map]. destruct (p x) eqn:E.
  - cbn [flat_map]. rewrite IH. reflexivity.
  - rewrite (H x E). exact IH.
Qed.

Lemma filter_true_id {A} (p : A -> bool) l : (forall x, In x l -> p x = true) -> filter p l = l.
Proof.
  induction l as [|x l IH]; intros H; [reflexivity|].
  cbn [filter]. rewrite (H x (or_introl eq_refl)). rewrite IH; [reflexivity|].
  intros y Hy. apply H. right. exact Hy.
Qed.

Lemma filter_false_nil {A} (p : A -> bool) l : (forall x, In x l -> p x = false) -> filter p l = [].
Proof.
  induction l as [|x l IH]; intros H; [reflexivity|].
  cbn [filter]. rewrite (H x (or_introl eq_refl)). apply IH.
  intros y Hy. apply H. right. exact Hy.
Qed.

Lemma seq_nth_map {A} (l : list A) d : map (fun j => nth j l d) (seq 0 (length l)) = l.
Proof.
  induction l as [|x l IH]; [reflexivity|].
  cbn [length seq map nth]. rewrite <- seq_shift, map_map. cbn [nth]. rewrite IH. reflexivity.
Qed.

Lemma Forall_seq_lt s k n : s + k <= n -> Forall (fun i => i < n) (seq s k).
Proof. intros H. apply Forall_forall. intros i Hi. apply in_seq in Hi. lia. Qed.

Lemma forallb_false_iff {A} (p : A -> bool) l :
  forallb p l = false <-> exists x, In x l /\ p x = false.
Proof.
  induction l as [|x l IH]; cbn [forallb].
  - split; [discriminate|]. intros [x [[] _]].
  - destruct (p x) eqn:E; cbn [andb].
    + rewrite IH. split.
      * intros [y [Hy Hp]]. exists y. split; [right; exact Hy|exact Hp].
      * intros [y [[Hy|Hy] Hp]]; [subst y; congruence|]. exists y. split; assumption.
    + split; [|reflexivity]. intros _. exists x. split; [left; reflexivity|exact E].
Qed.

(* all_some *)
Lemma all_some_map_Some {A} (l : list A) : all_some (map Some l) = Some l.
Proof. induction l as [|x l IH]; cbn [map all_some]; [reflexivity|]. rewrite IH. reflexivity. Qed.

Lemma all_some_Some {A} (l : list (option A)) r : all_some l = Some r -> l = map Some r.
Proof.
  revert r; induction l as [|[x|] l IH]; intros r H; cbn [all_some] in H.
  - inversion H. reflexivity.
  - destruct (all_some l) as [r'|]; [|discriminate]. inversion H; subst. cbn [map]. f_equal. apply IH. reflexivity.
  - discriminate.
Qed.

Lemma all_some_None {A} (l : list (option A)) : all_some l = None <-> In None l.
Proof.
  induction l as [|[x|] l IH]; cbn [all_some In].
  - split; [discriminate|intros []].
  - destruct (all_some l) as [r|].
    + split; [discriminate|]. intros [H|H]; [discriminate|]. apply IH in H. discriminate.
    + split; [|reflexivity]. intros _. right. apply IH. reflexivity.
  - split; [|reflexivity]. intros _. left. reflexivity.
Qed.

(* ------------------------------------------------------------------ *)
(* 1. pick                                                              *)
(* ------------------------------------------------------------------ *)
Lemma pick_nil_l {A} (idxs : list nat) : pick (@nil A) idxs = [].
Proof. induction idxs as [|i idxs IH]; [reflexivity|]. unfold pick in *. cbn [flat_map nth_opt app]. exact IH. Qed.

Lemma pick_cons {A} (d : list A) i idxs :
  pick d (i :: idxs) = match nth_opt d i with Some c => c :: pick d idxs | None => pick d idxs end.
Proof. unfold pick. cbn [flat_map]. destruct (nth_opt d i); reflexivity. Qed.

Lemma pick_app {A} (d : list A) l1 l2 : pick d (l1 ++ l2) = pick d l1 ++ pick d l2.
Proof. unfold pick. apply flat_map_app. Qed.

Lemma pick_seq_S {A} (x : A) d s k : pick (x :: d) (seq (S s) k) = pick d (seq s k).
Proof.
  revert s; induction k as [|k IH]; intros s; [reflexivity|].
  cbn [seq]. rewrite !pick_cons. cbn [nth_opt]. rewrite IH. reflexivity.
Qed.

(* a contiguous range of positions is a slice, whatever the bounds *)
Lemma pick_seq {A} (d : list A) s k : pick d (seq s k) = firstn k (skipn s d).
Proof.
  revert s k; induction d as [|x d IH]; intros s k.
  - rewrite pick_nil_l, skipn_nil, firstn_nil. reflexivity.
  - destruct s as [|s].
    + cbn [skipn]. destruct k as [|k]; [reflexivity|].
      cbn [seq firstn]. rewrite pick_cons. cbn [nth_opt]. rewrite pick_seq_S, IH. reflexivity.
    + rewrite pick_seq_S, IH. reflexivity.
Qed.

Lemma pick_seq_firstn : forall (d : list cell) k, k <= length d -> pick d (seq 0 k) = firstn k d.
Proof. intros d k _. rewrite pick_seq. reflexivity. Qed.

Lemma pick_seq_skipn : forall (d : list cell) s, s <= length d -> pick d (seq s (length d - s)) = skipn s d.
Proof. intros d s _. rewrite pick_seq. apply firstn_all2. rewrite skipn_length. lia. Qed.

Lemma pick_in_range {A} (d : list A) dflt idxs :
  Forall (fun i => i < length d) idxs -> pick d idxs = map (fun i => nth i d dflt) idxs.
Proof.
  induction 1 as [|i idxs Hi _ IH]; [reflexivity|].
  rewrite pick_cons, (nth_opt_nth d i dflt Hi), IH. reflexivity.
Qed.

Lemma pick_length {A} (d : list A) idxs :
  Forall (fun i => i < length d) idxs -> length (pick d idxs) = length idxs.
Proof.
  intros H. destruct d as [|x0 d'].
  - destruct H as [|i idxs Hi _]; [reflexivity|]. cbn [length] in Hi. lia.
  - rewrite (pick_in_range _ x0) by exact H. apply map_length.
Qed.

Lemma pick_nth {A} (d : list A) idxs j dflt :
  Forall (fun i => i < length d) idxs -> j < length idxs ->
  nth j (pick d idxs) dflt = nth (nth j idxs 0) d dflt.
Proof.
  intros H Hj. rewrite (pick_in_range d dflt) by exact H.
  rewrite (nth_indep _ dflt (nth 0 d dflt)) by (rewrite map_length; exact Hj).
  exact (map_nth (fun i => nth i d dflt) idxs 0 j).
Qed.

Lemma pick_map_seq {B} (g : nat -> B) n idxs :
  Forall (fun i => i < n) idxs -> pick (map g (seq 0 n)) idxs = map g idxs.
Proof.
  intros H. rewrite (pick_in_range _ (g 0)).
  - apply map_ext_in. intros i Hi. rewrite Forall_forall in H. specialize (H i Hi).
    rewrite (map_nth g (seq 0 n) 0 i). rewrite seq_nth by exact H. reflexivity.
  - rewrite map_length, seq_length. exact H.
Qed.

Example pick_example :
  pick [CI KInt 1; CI KInt 2; CI KInt 3] [2; 0; 0; 7] = [CI KInt 3; CI KInt 1; CI KInt 1]
  /\ pick [CI KInt 1; CI KInt 2; CI KInt 3] (seq 1 2) = [CI KInt 2; CI KInt 3].
Proof. vm_compute. split; reflexivity. Qed.

(* ------------------------------------------------------------------ *)
(* 2. rectangular frames, rows, and the row-alignment lemma            *)
(* ------------------------------------------------------------------ *)
Lemma rect_length f kc : rect f = true -> In kc f -> length (cdata (snd kc)) = nrows f.
Proof. unfold rect. rewrite forallb_forall. intros H Hin. apply Nat.eqb_eq. apply (H _ Hin). Qed.

(* row i as a map from each key to the cell at position i of that column *)
Definition row_at (f : frame) (i : nat) : rowmap :=
  map (fun kc => (fst kc, nth i (cdata (snd kc)) CNil)) f.

Lemma frow_lt f i r : frow f i = Some r -> i < nrows f.
Proof.
  unfold frow. destruct (Nat.ltb i (nrows f)) eqn:E; [|discriminate].
  intros _. apply Nat.ltb_lt. exact E.
Qed.

Lemma frow_rect f i : rect f = true -> i < nrows f -> frow f i = Some (row_at f i).
Proof.
  intros Hr Hi. unfold frow.
  assert (Hb : Nat.ltb i (nrows f) = true) by (apply Nat.ltb_lt; exact Hi).
  rewrite Hb.
  transitivity (all_some (map Some (row_at f i))); [|apply all_some_map_Some].
  f_equal. unfold row_at. rewrite map_map. apply map_ext_in. intros kc Hin.
  rewrite (nth_opt_nth _ i CNil); [reflexivity|].
  rewrite (rect_length f kc Hr Hin). exact Hi.
Qed.

Lemma frow_is_some_rect f i : rect f = true -> is_some (frow f i) = Nat.ltb i (nrows f).
Proof.
  intros Hr. destruct (Nat.ltb i (nrows f)) eqn:E.
  - apply Nat.ltb_lt in E. rewrite (frow_rect f i Hr E). reflexivity.
  - unfold frow. rewrite E. reflexivity.
Qed.

Lemma frow_some_iff f i : rect f = true -> ((exists r, frow f i = Some r) <-> i < nrows f).
Proof.
  intros Hr. split.
  - intros [r H]. exact (frow_lt f i r H).
  - intros H. exists (row_at f i). apply frow_rect; assumption.
Qed.

Lemma valid_rows_rect f idxs : rect f = true ->
  valid_rows f idxs = filter (fun i => Nat.ltb i (nrows f)) idxs.
Proof. intros Hr. unfold valid_rows. apply filter_ext. intros i. apply frow_is_some_rect. exact Hr. Qed.

Lemma valid_rows_id f idxs : rect f = true -> Forall (fun i => i < nrows f) idxs -> valid_rows f idxs = idxs.
Proof.
  intros Hr H. rewrite valid_rows_rect by exact Hr. apply filter_true_id.
  intros i Hi. rewrite Forall_forall in H. apply Nat.ltb_lt. exact (H i Hi).
Qed.

Lemma rows_rect f : rect f = true -> rows f = map (row_at f) (seq 0 (nrows f)).
Proof.
  intros Hr. unfold rows. apply flat_map_single. intros i Hi. apply in_seq in Hi.
  rewrite frow_rect; [reflexivity|exact Hr|lia].
Qed.

Lemma rows_length f : rect f = true -> length (rows f) = nrows f.
Proof. intros Hr. rewrite rows_rect by exact Hr. rewrite map_length, seq_length. reflexivity. Qed.

Lemma rows_nth f i : rect f = true -> i < nrows f -> nth i (rows f) [] = row_at f i.
Proof.
  intros Hr Hi. rewrite rows_rect by exact Hr.
  transitivity (nth i (map (row_at f) (seq 0 (nrows f))) (row_at f 0)).
  - apply nth_indep. rewrite map_length, seq_length. exact Hi.
  - rewrite (map_nth (row_at f) (seq 0 (nrows f)) 0 i). rewrite seq_nth by exact Hi. reflexivity.
Qed.

Lemma rows_nth_opt f i : rect f = true -> nth_opt (rows f) i = frow f i.
Proof.
  intros Hr. destruct (Nat.ltb i (nrows f)) eqn:E.
  - apply Nat.ltb_lt in E. rewrite (frow_rect f i Hr E).
    rewrite (nth_opt_nth (rows f) i []) by (rewrite rows_length; assumption).
    rewrite rows_nth by assumption. reflexivity.
  - unfold frow. rewrite E. apply Nat.ltb_ge in E. apply nth_opt_none. rewrite rows_length by exact Hr. exact E.
Qed.

(* shape of a frame whose columns were all transformed to the same length *)
Lemma map_cols_nrows g f m : f <> [] ->
  (forall kc, In kc f -> length (g (cdata (snd kc))) = m) -> nrows (map_cols g f) = m.
Proof.
  destruct f as [|[k c] t]; intros Hne H; [congruence|].
  exact (H (k, c) (or_introl eq_refl)).
Qed.

Lemma map_cols_rect g f m :
  (forall kc, In kc f -> length (g (cdata (snd kc))) = m) -> rect (map_cols g f) = true.
Proof.
  intros H. destruct f as [|kc0 t]; [reflexivity|].
  assert (Hn : nrows (map_cols g (kc0 :: t)) = m) by (apply map_cols_nrows; [discriminate|exact H]).
  unfold rect. rewrite Hn. apply forallb_forall. intros kc' Hin.
  unfold map_cols in Hin. apply in_map_iff in Hin. destruct Hin as [kc [E Hin]]. subst kc'.
  apply Nat.eqb_eq. exact (H kc Hin).
Qed.

(* rekey_cols and map_cols differ only in the Name field, which rows do not read *)
Lemma nrows_rekey_map g f : nrows (rekey_cols g f) = nrows (map_cols g f).
Proof. destruct f as [|[k c] t]; reflexivity. Qed.

Lemma frow_rekey_map g f i : frow (rekey_cols g f) i = frow (map_cols g f) i.
Proof.
  unfold frow. rewrite nrows_rekey_map. destruct (Nat.ltb i (nrows (map_cols g f))); [|reflexivity].
  f_equal. unfold rekey_cols, map_cols. rewrite !map_map. apply map_ext. intros kc. reflexivity.
Qed.

Lemma rows_rekey_map g f : rows (rekey_cols g f) = rows (map_cols g f).
Proof.
  unfold rows. rewrite nrows_rekey_map. apply flat_map_ext. intros i.
  rewrite frow_rekey_map. reflexivity.
Qed.

Lemma rect_rekey_map g f : rect (rekey_cols g f) = rect (map_cols g f).
Proof.
  unfold rect. rewrite nrows_rekey_map. generalize (nrows (map_cols g f)). intros m.
  induction f as [|kc t IH]; [reflexivity|].
  cbn [rekey_cols map_cols map forallb]. f_equal. exact IH.
Qed.

Lemma fkeys_rekey g f : fkeys (rekey_cols g f) = fkeys f.
Proof. unfold rekey_cols, fkeys. rewrite map_map. apply map_ext. intros kc. reflexivity. Qed.
Lemma fkeys_map_cols g f : fkeys (map_cols g f) = fkeys f.
Proof. unfold map_cols, fkeys. rewrite map_map. apply map_ext. intros kc. reflexivity. Qed.
Lemma ncols_rekey g f : ncols (rekey_cols g f) = ncols f.
Proof. unfold ncols, rekey_cols. apply map_length. Qed.
Lemma names_ok_rekey g f : names_ok (rekey_cols g f) = true.
Proof.
  unfold names_ok, rekey_cols. rewrite forallb_forall. intros kc' H.
  apply in_map_iff in H. destruct H as [kc [E _]]. subst kc'. apply str_eqb_refl.
Qed.
Lemma wf_rekey g f : sorted_keys (fkeys f) = true -> rect (rekey_cols g f) = true ->
  wf_frame (rekey_cols g f) = true.
Proof. intros Hs Hr. unfold wf_frame. rewrite Hr, names_ok_rekey, fkeys_rekey, Hs. reflexivity. Qed.

(* THE ROW-ALIGNMENT LEMMA: taking the same positions from every column takes whole rows *)
Theorem rows_pick f idxs : rect f = true -> Forall (fun i => i < nrows f) idxs ->
  rows (map_cols (fun d => pick d idxs) f) = pick (rows f) idxs.
Proof.
  intros Hr Hi.
  assert (Hne : f = [] \/ f <> []) by (destruct f; [left; reflexivity|right; discriminate]).
  destruct Hne as [E|Hne].
  - subst f. transitivity (@nil rowmap); [reflexivity|]. symmetry. exact (pick_nil_l idxs).
  - assert (Hlen : forall kc, In kc f -> length ((fun d => pick d idxs) (cdata (snd kc))) = length idxs).
    { intros kc Hin. apply pick_length. rewrite (rect_length f kc Hr Hin). exact Hi. }
    assert (Hn' : nrows (map_cols (fun d => pick d idxs) f) = length idxs)
      by (apply map_cols_nrows; assumption).
    assert (Hr' : rect (map_cols (fun d => pick d idxs) f) = true)
      by (apply map_cols_rect with (m := length idxs); assumption).
    rewrite (rows_rect _ Hr'), Hn', (rows_rect f Hr).
    rewrite pick_map_seq by exact Hi.
    transitivity (map (row_at f) (map (fun j => nth j idxs 0) (seq 0 (length idxs))));
      [|rewrite seq_nth_map; reflexivity].
    rewrite map_map. apply map_ext_in. intros j Hj. apply in_seq in Hj.
    unfold row_at, map_cols. rewrite map_map. apply map_ext_in. intros kc Hin.
    apply f_equal2; [reflexivity|].
    apply (pick_nth (cdata (snd kc)) idxs j CNil); [|lia].
    rewrite (rect_length f kc Hr Hin). exact Hi.
Qed.

Corollary rows_take_rows f idxs : rect f = true -> Forall (fun i => i < nrows f) idxs ->
  rows (take_rows f idxs) = pick (rows f) idxs.
Proof. exact (rows_pick f idxs). Qed.

Theorem rows_pick_rekey f idxs : rect f = true -> Forall (fun i => i < nrows f) idxs ->
  rows (rekey_cols (fun d => pick d idxs) f) = pick (rows f) idxs.
Proof. intros Hr Hi. rewrite rows_rekey_map. apply rows_pick; assumption. Qed.

(* shape of the result of a positional selection *)
Lemma pick_cols_rect f idxs : rect f = true -> Forall (fun i => i < nrows f) idxs ->
  rect (rekey_cols (fun d => pick d idxs) f) = true /\
  (f <> [] -> nrows (rekey_cols (fun d => pick d idxs) f) = length idxs).
Proof.
  intros Hr Hi.
  assert (Hlen : forall kc, In kc f -> length ((fun d => pick d idxs) (cdata (snd kc))) = length idxs).
  { intros kc Hin. apply pick_length. rewrite (rect_length f kc Hr Hin). exact Hi. }
  split.
  - rewrite rect_rekey_map. apply map_cols_rect with (m := length idxs). exact Hlen.
  - intros Hne. rewrite nrows_rekey_map. apply map_cols_nrows; assumption.
Qed.

Example rows_pick_example :
  rect exf = true /\ Forall (fun i => i < nrows exf) [2; 0; 2] /\
  rows (map_cols (fun d => pick d [2; 0; 2]) exf)
  = [ [([97%N], CI KInt 3); ([98%N], CB true)];
      [([97%N], CI KInt 1); ([98%N], CS [120%N])];
      [([97%N], CI KInt 3); ([98%N], CB true)] ].
Proof. split; [reflexivity|]. split; [repeat constructor|vm_compute; reflexivity]. Qed.

(* ------------------------------------------------------------------ *)
(* 3. Head                                                              *)
(* ------------------------------------------------------------------ *)
Lemma clamp_count_eq f n : clamp_count f n = Z.to_nat (Z.max 0 (Z.min n (Z.of_nat (nrows f)))).
Proof.
  unfold clamp_count. destruct (n <? 0)%Z eqn:E1.
  - apply Z.ltb_lt in E1. lia.
  - apply Z.ltb_ge in E1. destruct (Z.of_nat (nrows f) <? n)%Z eqn:E2.
    + apply Z.ltb_lt in E2. lia.
    + apply Z.ltb_ge in E2. lia.
Qed.

Lemma clamp_count_le f n : clamp_count f n <= nrows f.
Proof. rewrite clamp_count_eq. lia. Qed.

Theorem op_head_spec f n : rect f = true ->
  op_head f n = Ok (rekey_cols (firstn (clamp_count f n)) f).
Proof.
  intros Hr. unfold op_head. cbv zeta.
  assert (H : forallb (fun kc => Nat.leb (clamp_count f n) (length (cdata (snd kc)))) f = true).
  { apply forallb_forall. intros kc Hin. apply Nat.leb_le.
    rewrite (rect_length f kc Hr Hin). apply clamp_count_le. }
  rewrite H. reflexivity.
Qed.

Lemma rekey_firstn_pick f k : rekey_cols (firstn k) f = rekey_cols (fun d => pick d (seq 0 k)) f.
Proof. unfold rekey_cols. apply map_ext. intros kc. rewrite pick_seq. reflexivity. Qed.

Lemma rows_firstn f k : rect f = true -> k <= nrows f ->
  rows (rekey_cols (firstn k) f) = firstn k (rows f).
Proof.
  intros Hr Hk. rewrite rekey_firstn_pick.
  rewrite rows_pick_rekey; [|exact Hr|apply Forall_seq_lt; lia].
  rewrite pick_seq. reflexivity.
Qed.

Theorem op_head_rows f n : rect f = true ->
  exists g, op_head f n = Ok g /\ rows g = firstn (clamp_count f n) (rows f)
            /\ fkeys g = fkeys f /\ names_ok g = true /\ rect g = true.
Proof.
  intros Hr. exists (rekey_cols (firstn (clamp_count f n)) f).
  split; [apply op_head_spec; exact Hr|].
  split; [apply rows_firstn; [exact Hr|apply clamp_count_le]|].
  split; [apply fkeys_rekey|]. split; [apply names_ok_rekey|].
  rewrite rekey_firstn_pick. apply pick_cols_rect; [exact Hr|].
  apply Forall_seq_lt. pose proof (clamp_count_le f n). lia.
Qed.

Example op_head_example :
  rect exf = true /\
  op_head exf 2 = Ok [([97%N], ([97%N], [CI KInt 1; CI KInt 2])); ([98%N], ([98%N], [CS [120%N]; CNil]))]
  /\ op_head exf 99 = Ok exf /\ clamp_count exf (-5) = 0.
Proof. vm_compute. repeat split. Qed.

(* ------------------------------------------------------------------ *)
(* 4. Tail                                                              *)
(* ------------------------------------------------------------------ *)
Theorem op_tail_spec f n : rect f = true ->
  op_tail f n = Ok (rekey_cols (skipn (nrows f - clamp_count f n)) f).
Proof.
  intros Hr. unfold op_tail. cbv zeta.
  assert (H : forallb (fun kc => Nat.leb (nrows f - clamp_count f n) (length (cdata (snd kc)))) f = true).
  { apply forallb_forall. intros kc Hin. apply Nat.leb_le.
    rewrite (rect_length f kc Hr Hin). lia. }
  rewrite H. reflexivity.
Qed.

Lemma rekey_skipn_pick f s : rect f = true ->
  rekey_cols (skipn s) f = rekey_cols (fun d => pick d (seq s (nrows f - s))) f.
Proof.
  intros Hr. unfold rekey_cols. apply map_ext_in. intros kc Hin.
  rewrite pick_seq. rewrite firstn_all2; [reflexivity|].
  rewrite skipn_length, (rect_length f kc Hr Hin). lia.
Qed.

Lemma rows_skipn f s : rect f = true -> rows (rekey_cols (skipn s) f) = skipn s (rows f).
Proof.
  intros Hr. rewrite rekey_skipn_pick by exact Hr.
  assert (Hs : s <= nrows f \/ nrows f < s) by lia. destruct Hs as [Hs|Hs].
  - rewrite rows_pick_rekey; [|exact Hr|apply Forall_seq_lt; lia].
    rewrite pick_seq. apply firstn_all2. rewrite skipn_length, rows_length by exact Hr. lia.
  - replace (nrows f - s) with 0 by lia.
    rewrite rows_pick_rekey; [|exact Hr|constructor].
    rewrite skipn_all2; [reflexivity|]. rewrite rows_length by exact Hr. lia.
Qed.

Theorem op_tail_rows f n : rect f = true ->
  exists g, op_tail f n = Ok g /\ rows g = skipn (nrows f - clamp_count f n) (rows f)
            /\ fkeys g = fkeys f /\ names_ok g = true /\ rect g = true.
Proof.
  intros Hr. exists (rekey_cols (skipn (nrows f - clamp_count f n)) f).
  split; [apply op_tail_spec; exact Hr|].
  split; [apply rows_skipn; exact Hr|].
  split; [apply fkeys_rekey|]. split; [apply names_ok_rekey|].
  rewrite rekey_skipn_pick by exact Hr. apply pick_cols_rect; [exact Hr|].
  apply Forall_seq_lt. pose proof (clamp_count_le f n). lia.
Qed.

Example op_tail_example :
  rect exf = true /\
  op_tail exf 2 = Ok [([97%N], ([97%N], [CI KInt 2; CI KInt 3])); ([98%N], ([98%N], [CNil; CB true]))]
  /\ op_tail exf 99 = Ok exf
  /\ op_tail exf 0 = Ok [([97%N], ([97%N], [])); ([98%N], ([98%N], []))].
Proof. vm_compute. repeat split. Qed.

(* ------------------------------------------------------------------ *)
(* 5. RowSlice: the half-open range [max a 0, min b nrows)              *)
(* ------------------------------------------------------------------ *)
Definition slice_lo (a : Z) : nat := Z.to_nat (Z.max a 0).
Definition slice_hi (f : frame) (b : Z) : nat := Z.to_nat (Z.min b (Z.of_nat (nrows f))).

Lemma slice_hi_le f b : slice_hi f b <= nrows f.
Proof. unfold slice_hi. lia. Qed.

Theorem op_rowslice_spec f a b : rect f = true ->
  op_rowslice f a b = rekey_cols (fun d => pick d (seq (slice_lo a) (slice_hi f b - slice_lo a))) f.
Proof.
  intros Hr. unfold op_rowslice, slice_lo, slice_hi. cbv zeta.
  destruct (Z.min b (Z.of_nat (nrows f)) <=? Z.max a 0)%Z eqn:E.
  - apply Z.leb_le in E.
    assert (H0 : Z.to_nat (Z.min b (Z.of_nat (nrows f))) - Z.to_nat (Z.max a 0) = 0) by lia.
    rewrite H0. reflexivity.
  - apply Z.leb_gt in E. unfold sel_rows.
    assert (H1 : Z.to_nat (Z.min b (Z.of_nat (nrows f)) - Z.max a 0)
                 = Z.to_nat (Z.min b (Z.of_nat (nrows f))) - Z.to_nat (Z.max a 0)) by lia.
    rewrite H1. rewrite valid_rows_id; [reflexivity|exact Hr|].
    apply Forall_seq_lt. lia.
Qed.

(* empty when the clamped range is empty *)
Corollary op_rowslice_empty f a b : rect f = true -> slice_hi f b <= slice_lo a ->
  op_rowslice f a b = rekey_cols (fun _ => []) f.
Proof.
  intros Hr H. rewrite op_rowslice_spec by exact Hr.
  replace (slice_hi f b - slice_lo a) with 0 by lia. reflexivity.
Qed.

Theorem op_rowslice_rows f a b : rect f = true ->
  rows (op_rowslice f a b) = firstn (slice_hi f b - slice_lo a) (skipn (slice_lo a) (rows f)).
Proof.
  intros Hr. rewrite op_rowslice_spec by exact Hr.
  pose proof (slice_hi_le f b) as Hle.
  assert (Hc : slice_hi f b <= slice_lo a \/ slice_lo a < slice_hi f b) by lia.
  destruct Hc as [Hc|Hc].
  - replace (slice_hi f b - slice_lo a) with 0 by lia.
    rewrite rows_pick_rekey; [reflexivity|exact Hr|constructor].
  - rewrite rows_pick_rekey; [|exact Hr|apply Forall_seq_lt; lia].
    apply pick_seq.
Qed.

Lemma op_rowslice_shape f a b : rect f = true ->
  fkeys (op_rowslice f a b) = fkeys f /\ names_ok (op_rowslice f a b) = true
  /\ rect (op_rowslice f a b) = true.
Proof.
  intros Hr. rewrite op_rowslice_spec by exact Hr.
  split; [apply fkeys_rekey|]. split; [apply names_ok_rekey|].
  pose proof (slice_hi_le f b) as Hle.
  assert (Hc : slice_hi f b <= slice_lo a \/ slice_lo a < slice_hi f b) by lia.
  destruct Hc as [Hc|Hc].
  - replace (slice_hi f b - slice_lo a) with 0 by lia. apply pick_cols_rect; [exact Hr|constructor].
  - apply pick_cols_rect; [exact Hr|]. apply Forall_seq_lt. lia.
Qed.

Example op_rowslice_example :
  rect exf = true /\
  op_rowslice exf 1 3 = [([97%N], ([97%N], [CI KInt 2; CI KInt 3])); ([98%N], ([98%N], [CNil; CB true]))]
  /\ op_rowslice exf (-4) 1 = [([97%N], ([97%N], [CI KInt 1])); ([98%N], ([98%N], [CS [120%N]]))]
  /\ op_rowslice exf 2 99 = [([97%N], ([97%N], [CI KInt 3])); ([98%N], ([98%N], [CB true]))]
  /\ op_rowslice exf 2 1 = [([97%N], ([97%N], [])); ([98%N], ([98%N], []))]
  /\ slice_lo (-4) = 0 /\ slice_hi exf 99 = 3.
Proof. vm_compute. repeat split. Qed.

(* ------------------------------------------------------------------ *)
(* 6. Filter                                                            *)
(* ------------------------------------------------------------------ *)
Theorem filter_calls_rect f : rect f = true -> filter_calls f = seq 0 (nrows f).
Proof.
  intros Hr. unfold filter_calls. apply valid_rows_id; [exact Hr|].
  apply Forall_seq_lt. lia.
Qed.

(* the predicate sees each row exactly once, in order, with all its cells (any frame) *)
Theorem op_filter_sees_rows f keep : snd (op_filter f keep) = rows f.
Proof.
  unfold op_filter, filter_calls, valid_rows, rows. cbn [snd].
  apply flat_map_filter_skip. intros i H. destruct (frow f i); [discriminate|reflexivity].
Qed.

Lemma filter_cons_eq {A} (p : A -> bool) x l :
  filter p (x :: l) = if p x then x :: filter p l else filter p l.
Proof. reflexivity. Qed.

Lemma combine_filter_seq n : forall s (keep : list bool),
  map fst (filter snd (combine (seq s n) keep)) = filter (fun i => nth (i - s) keep false) (seq s n).
Proof.
  induction n as [|n IH]; intros s keep; [reflexivity|].
  cbn [seq]. destruct keep as [|b keep].
  - cbn [combine]. symmetry.
    apply (filter_false_nil (fun i => nth (i - s) (@nil bool) false) (s :: seq (S s) n)).
    intros i _. destruct (i - s); reflexivity.
  - cbn [combine]. rewrite !filter_cons_eq. cbv beta. cbn [snd]. rewrite Nat.sub_diag.
    change (nth 0 (b :: keep) false) with b.
    assert (Hrest : filter (fun i => nth (i - s) (b :: keep) false) (seq (S s) n)
                    = filter (fun i => nth (i - S s) keep false) (seq (S s) n)).
    { apply filter_ext_in. intros i Hi. apply in_seq in Hi.
      replace (i - s) with (S (i - S s)) by lia. reflexivity. }
    rewrite Hrest, <- IH. destruct b; reflexivity.
Qed.

Lemma filter_idx_rect f keep : rect f = true ->
  filter_idx f keep = filter (fun i => nth i keep false) (seq 0 (nrows f)).
Proof.
  intros Hr. unfold filter_idx. rewrite filter_calls_rect by exact Hr.
  rewrite combine_filter_seq. apply filter_ext. intros i. rewrite Nat.sub_0_r. reflexivity.
Qed.

(* kept positions: those i < nrows whose i-th answer was true (no answer = false) *)
Definition kept (f : frame) (keep : list bool) : list nat :=
  filter (fun i => nth i keep false) (seq 0 (nrows f)).

Lemma kept_lt f keep : Forall (fun i => i < nrows f) (kept f keep).
Proof.
  apply Forall_forall. intros i Hi. unfold kept in Hi. apply filter_In in Hi.
  destruct Hi as [Hi _]. apply in_seq in Hi. lia.
Qed.

Theorem op_filter_spec f keep : rect f = true ->
  fst (op_filter f keep) = rekey_cols (fun d => pick d (kept f keep)) f.
Proof. intros Hr. unfold op_filter. cbn [fst]. rewrite filter_idx_rect by exact Hr. reflexivity. Qed.

Lemma map_combine_filter {A B} (g : A -> B) (l : list A) : forall keep : list bool,
  map g (map fst (filter snd (combine l keep))) = map fst (filter snd (combine (map g l) keep)).
Proof.
  induction l as [|x l IH]; intros keep; [reflexivity|].
  destruct keep as [|b keep]; [reflexivity|].
  cbn [map combine filter snd]. destruct b; cbn [map fst]; rewrite IH; reflexivity.
Qed.

(* whole rows are kept or dropped: the rows of the result are the rows answered true *)
Theorem op_filter_rows f keep : rect f = true ->
  rows (fst (op_filter f keep)) = pick (rows f) (kept f keep)
  /\ rows (fst (op_filter f keep)) = map fst (filter snd (combine (rows f) keep)).
Proof.
  intros Hr. rewrite op_filter_spec by exact Hr.
  rewrite rows_pick_rekey; [|exact Hr|apply kept_lt]. split; [reflexivity|].
  rewrite (rows_rect f Hr). rewrite pick_map_seq by apply kept_lt.
  rewrite <- map_combine_filter. f_equal. unfold kept.
  rewrite combine_filter_seq. apply filter_ext. intros i. rewrite Nat.sub_0_r. reflexivity.
Qed.

Lemma op_filter_shape f keep : rect f = true ->
  fkeys (fst (op_filter f keep)) = fkeys f /\ names_ok (fst (op_filter f keep)) = true
  /\ rect (fst (op_filter f keep)) = true.
Proof.
  intros Hr. rewrite op_filter_spec by exact Hr.
  split; [apply fkeys_rekey|]. split; [apply names_ok_rekey|].
  apply pick_cols_rect; [exact Hr|apply kept_lt].
Qed.

Example op_filter_example :
  rect exf = true /\ filter_calls exf = [0; 1; 2] /\ kept exf [true; false; true] = [0; 2] /\
  fst (op_filter exf [true; false; true])
  = [([97%N], ([97%N], [CI KInt 1; CI KInt 3])); ([98%N], ([98%N], [CS [120%N]; CB true]))]
  /\ snd (op_filter exf [true; false; true]) = rows exf.
Proof. vm_compute. repeat split. Qed.

(* ------------------------------------------------------------------ *)
(* 7. DropRow                                                           *)
(* ------------------------------------------------------------------ *)
Lemma remove_nth_spec {A} (d : list A) i : remove_nth d i = firstn i d ++ skipn (S i) d.
Proof.
  revert i; induction d as [|x d IH]; intros [|i]; try reflexivity.
  cbn [remove_nth firstn skipn app]. rewrite IH. reflexivity.
Qed.

Lemma remove_nth_pick {A} (d : list A) i :
  remove_nth d i = pick d (seq 0 i ++ seq (S i) (length d - S i)).
Proof.
  rewrite remove_nth_spec, pick_app, !pick_seq. f_equal.
  symmetry. apply firstn_all2. rewrite skipn_length. lia.
Qed.

Definition row_in_range (f : frame) (i : Z) : Prop := (0 <= i < Z.of_nat (nrows f))%Z.

Theorem op_droprow_ok f i : rect f = true -> row_in_range f i ->
  op_droprow f i = Ok (map_cols (fun d => remove_nth d (Z.to_nat i)) f).
Proof.
  intros Hr [H0 H1]. unfold op_droprow.
  assert (E1 : (i <? 0)%Z = false) by (apply Z.ltb_ge; lia).
  assert (E2 : (Z.of_nat (nrows f) <=? i)%Z = false) by (apply Z.leb_gt; lia).
  rewrite E1, E2. cbn [orb].
  assert (H : forallb (fun kc => Nat.ltb (Z.to_nat i) (length (cdata (snd kc)))) f = true).
  { apply forallb_forall. intros kc Hin. apply Nat.ltb_lt. rewrite (rect_length f kc Hr Hin). lia. }
  rewrite H. reflexivity.
Qed.

Theorem op_droprow_err_iff f i : rect f = true -> (op_droprow f i = Err <-> ~ row_in_range f i).
Proof.
  intros Hr. split.
  - intros H Hin. rewrite (op_droprow_ok f i Hr Hin) in H. discriminate.
  - intros H. unfold op_droprow, row_in_range in *.
    destruct (i <? 0)%Z eqn:E1; [reflexivity|].
    destruct (Z.of_nat (nrows f) <=? i)%Z eqn:E2; [reflexivity|].
    apply Z.ltb_ge in E1. apply Z.leb_gt in E2. lia.
Qed.

Theorem op_droprow_no_panic f i : rect f = true -> op_droprow f i <> Panic.
Proof.
  intros Hr.
  assert (Hc : row_in_range f i \/ ~ row_in_range f i) by (unfold row_in_range; lia).
  destruct Hc as [Hc|Hc].
  - rewrite (op_droprow_ok f i Hr Hc). discriminate.
  - apply (op_droprow_err_iff f i Hr) in Hc. rewrite Hc. discriminate.
Qed.

(* the other rows survive whole and in order *)
Theorem rows_remove_nth f k : rect f = true -> k < nrows f ->
  rows (map_cols (fun d => remove_nth d k) f) = remove_nth (rows f) k.
Proof.
  intros Hr Hk.
  assert (E : map_cols (fun d => remove_nth d k) f
              = map_cols (fun d => pick d (seq 0 k ++ seq (S k) (nrows f - S k))) f).
  { unfold map_cols. apply map_ext_in. intros kc Hin.
    rewrite remove_nth_pick, (rect_length f kc Hr Hin). reflexivity. }
  rewrite E. rewrite rows_pick; [|exact Hr|].
  - rewrite remove_nth_pick, rows_length by exact Hr. reflexivity.
  - apply Forall_app. split; apply Forall_seq_lt; lia.
Qed.

Corollary op_droprow_rows f i : rect f = true -> row_in_range f i ->
  exists g, op_droprow f i = Ok g /\ rows g = remove_nth (rows f) (Z.to_nat i)
            /\ fkeys g = fkeys f.
Proof.
  intros Hr Hin. exists (map_cols (fun d => remove_nth d (Z.to_nat i)) f).
  split; [apply op_droprow_ok; assumption|].
  split; [|apply fkeys_map_cols].
  apply rows_remove_nth; [exact Hr|]. unfold row_in_range in Hin. lia.
Qed.

Example op_droprow_example :
  rect exf = true /\ row_in_range exf 1 /\
  op_droprow exf 1 = Ok [([97%N], ([97%N], [CI KInt 1; CI KInt 3])); ([98%N], ([98%N], [CS [120%N]; CB true]))]
  /\ op_droprow exf 3 = Err /\ op_droprow exf (-1) = Err.
Proof. split; [reflexivity|]. split; [unfold row_in_range; cbn; lia|]. vm_compute. repeat split. Qed.

(* ------------------------------------------------------------------ *)
(* 8. Row                                                               *)
(* ------------------------------------------------------------------ *)
(* any frame *)
Theorem op_row_ok_iff f i r :
  op_row f i = Ok r <-> row_in_range f i /\ frow f (Z.to_nat i) = Some r.
Proof.
  unfold op_row, row_in_range.
  destruct (i <? 0)%Z eqn:E1; cbn [orb].
  - apply Z.ltb_lt in E1. split; [discriminate|]. intros [H _]. lia.
  - apply Z.ltb_ge in E1. destruct (Z.of_nat (nrows f) <=? i)%Z eqn:E2.
    + apply Z.leb_le in E2. split; [discriminate|]. intros [H _]. lia.
    + apply Z.leb_gt in E2. destruct (frow f (Z.to_nat i)) as [r'|].
      * split.
        -- intros H. inversion H; subst. split; [lia|reflexivity].
        -- intros [_ H]. inversion H; subst. reflexivity.
      * split; [discriminate|]. intros [_ H]. discriminate.
Qed.

Theorem op_row_no_panic f i : op_row f i <> Panic.
Proof.
  unfold op_row. destruct ((i <? 0)%Z || (Z.of_nat (nrows f) <=? i)%Z); [discriminate|].
  destruct (frow f (Z.to_nat i)); discriminate.
Qed.

Theorem op_row_rect f i : rect f = true -> row_in_range f i ->
  op_row f i = Ok (row_at f (Z.to_nat i)) /\ op_row f i = Ok (nth (Z.to_nat i) (rows f) []).
Proof.
  intros Hr Hin.
  assert (Hk : Z.to_nat i < nrows f) by (unfold row_in_range in Hin; lia).
  rewrite rows_nth by assumption. split; apply op_row_ok_iff; (split; [exact Hin|]);
    apply frow_rect; assumption.
Qed.

Theorem op_row_err_iff f i : rect f = true -> (op_row f i = Err <-> ~ row_in_range f i).
Proof.
  intros Hr. split.
  - intros H Hin. destruct (op_row_rect f i Hr Hin) as [E _]. rewrite E in H. discriminate.
  - intros H. destruct (op_row f i) as [r| |] eqn:E; [|reflexivity|].
    + apply op_row_ok_iff in E. destruct E as [E _]. contradiction.
    + exfalso. exact (op_row_no_panic f i E).
Qed.

Example op_row_example :
  rect exf = true /\ row_in_range exf 2 /\
  op_row exf 2 = Ok [([97%N], CI KInt 3); ([98%N], CB true)] /\ op_row exf 3 = Err /\ op_row exf (-1) = Err.
Proof. split; [reflexivity|]. split; [unfold row_in_range; cbn; lia|]. vm_compute. repeat split. Qed.

(* ------------------------------------------------------------------ *)
(* 9. Iloc                                                              *)
(* ------------------------------------------------------------------ *)
Definition in_range (n : nat) (z : Z) : bool := ((0 <=? z) && (z <? Z.of_nat n))%Z.

Lemma in_range_iff n z : in_range n z = true <-> (0 <= z < Z.of_nat n)%Z.
Proof.
  unfold in_range. rewrite andb_true_iff, Z.leb_le, Z.ltb_lt. reflexivity.
Qed.

Lemma zidx_spec {A} (l : list A) (z : Z) dflt :
  zidx l z = if in_range (length l) z then Some (nth (Z.to_nat z) l dflt) else None.
Proof.
  unfold zidx. change ((0 <=? z)%Z && (z <? Z.of_nat (length l))%Z) with (in_range (length l) z).
  destruct (in_range (length l) z) eqn:E; [|reflexivity].
  apply in_range_iff in E. apply nth_opt_nth. lia.
Qed.

Lemma all_some_map_zidx {A} (l : list A) dflt (zs : list Z) :
  all_some (map (zidx l) zs) =
  if forallb (in_range (length l)) zs then Some (map (fun z => nth (Z.to_nat z) l dflt) zs) else None.
Proof.
  induction zs as [|z zs IH]; [reflexivity|].
  cbn [map forallb]. rewrite (zidx_spec l z dflt).
  destruct (in_range (length l) z); cbn [all_some andb]; [|reflexivity].
  rewrite IH. destruct (forallb (in_range (length l)) zs); reflexivity.
Qed.

Lemma length_fkeys {A} (f : list (str * A)) : length (fkeys f) = length f.
Proof. unfold fkeys. apply map_length. Qed.

Lemma row_or_empty_rect f k : rect f = true -> k < nrows f -> row_or_empty f k = row_at f k.
Proof. intros Hr Hk. unfold row_or_empty. rewrite frow_rect by assumption. reflexivity. Qed.

(* Err exactly when a position is out of range (any frame) *)
Theorem op_iloc_err_iff f rws cls :
  op_iloc f rws cls = Err <->
  forallb (in_range (ncols f)) cls && forallb (in_range (nrows f)) rws = false.
Proof.
  unfold op_iloc. cbv zeta. rewrite (all_some_map_zidx (fkeys f) []). rewrite length_fkeys.
  change (length f) with (ncols f).
  change (forallb (fun r => ((0 <=? r) && (r <? Z.of_nat (nrows f)))%Z) rws)
    with (forallb (in_range (nrows f)) rws).
  destruct (forallb (in_range (ncols f)) cls); cbn [andb].
  - destruct (forallb (in_range (nrows f)) rws); split; try reflexivity; discriminate.
  - split; reflexivity.
Qed.

Theorem op_iloc_err_iff_prop f rws cls :
  op_iloc f rws cls = Err <->
  (exists c, In c cls /\ ~ (0 <= c < Z.of_nat (ncols f))%Z) \/
  (exists r, In r rws /\ ~ (0 <= r < Z.of_nat (nrows f))%Z).
Proof.
  rewrite op_iloc_err_iff, andb_false_iff, !forallb_false_iff.
  split; (intros [[x [Hin H]]|[x [Hin H]]]; [left|right]; exists x; split; try exact Hin).
  - intros Hc. apply in_range_iff in Hc. congruence.
  - intros Hc. apply in_range_iff in Hc. congruence.
  - destruct (in_range (ncols f) x) eqn:E; [|reflexivity]. apply in_range_iff in E. contradiction.
  - destruct (in_range (nrows f) x) eqn:E; [|reflexivity]. apply in_range_iff in E. contradiction.
Qed.

Theorem op_iloc_no_panic f rws cls : op_iloc f rws cls <> Panic.
Proof.
  unfold op_iloc. cbv zeta. destruct (all_some (map (zidx (fkeys f)) cls)); [|discriminate].
  destruct (forallb _ rws); discriminate.
Qed.

(* otherwise: the listed columns (by position in sorted key order) of the listed rows, in the
   order given; a repeated row position yields a repeated row because of the [map] *)
Theorem op_iloc_ok f rws cls : rect f = true ->
  forallb (in_range (ncols f)) cls = true -> forallb (in_range (nrows f)) rws = true ->
  op_iloc f rws cls =
  Ok (frame_of_rows (map (fun c => nth (Z.to_nat c) (fkeys f) []) cls)
                    (map (fun r => row_at f (Z.to_nat r)) rws))
  /\ map (fun r => row_at f (Z.to_nat r)) rws = map (fun r => nth (Z.to_nat r) (rows f) []) rws.
Proof.
  intros Hr Hc Hw.
  assert (Hlt : forall r, In r rws -> Z.to_nat r < nrows f).
  { intros r Hin. rewrite forallb_forall in Hw. specialize (Hw r Hin). apply in_range_iff in Hw. lia. }
  split.
  - unfold op_iloc. cbv zeta. rewrite (all_some_map_zidx (fkeys f) []). rewrite length_fkeys.
    change (length f) with (ncols f). rewrite Hc.
    change (forallb (fun r => ((0 <=? r) && (r <? Z.of_nat (nrows f)))%Z) rws)
      with (forallb (in_range (nrows f)) rws).
    rewrite Hw. do 2 f_equal. apply map_ext_in. intros r Hin.
    apply row_or_empty_rect; [exact Hr|exact (Hlt r Hin)].
  - apply map_ext_in. intros r Hin. symmetry. apply rows_nth; [exact Hr|exact (Hlt r Hin)].
Qed.

Example op_iloc_example :
  rect exf = true /\ forallb (in_range (ncols exf)) [1; 0]%Z = true
  /\ forallb (in_range (nrows exf)) [2; 2; 0]%Z = true /\
  op_iloc exf [2; 2; 0]%Z [1; 0]%Z
  = Ok [([97%N], ([97%N], [CI KInt 3; CI KInt 3; CI KInt 1]));
        ([98%N], ([98%N], [CB true; CB true; CS [120%N]]))]
  /\ op_iloc exf [3]%Z [0]%Z = Err /\ op_iloc exf [0]%Z [2]%Z = Err /\ op_iloc exf [-1]%Z [0]%Z = Err.
Proof. vm_compute. repeat split. Qed.

(* ------------------------------------------------------------------ *)
(* 10. DropColumn, MultiSelect                                          *)
(* ------------------------------------------------------------------ *)
Lemma fhas_in {A} (f : list (str * A)) n : fhas f n = true <-> In n (fkeys f).
Proof.
  unfold fhas. induction f as [|[k c] t IH]; cbn [fget fkeys map In fst].
  - split; [discriminate|intros []].
  - destruct (str_eqb n k) eqn:E.
    + apply str_eqb_eq in E. subst k. split; [intros _; left; reflexivity|reflexivity].
    + apply str_eqb_neq in E. rewrite IH. unfold fkeys. split; [intros H; right; exact H|].
      intros [H|H]; [congruence|exact H].
Qed.

Theorem op_dropcolumn_err_iff f n : op_dropcolumn f n = Err <-> ~ In n (fkeys f).
Proof.
  unfold op_dropcolumn. rewrite <- fhas_in. destruct (fhas f n).
  - split; [discriminate|]. intros H. exfalso. apply H. reflexivity.
  - split; [intros _; discriminate|reflexivity].
Qed.

Theorem op_dropcolumn_ok f n : In n (fkeys f) -> op_dropcolumn f n = Ok (fdel f n).
Proof. intros H. apply fhas_in in H. unfold op_dropcolumn. rewrite H. reflexivity. Qed.

Lemma sorted_keys_cons a t : sorted_keys (a :: t) = true ->
  sorted_keys t = true /\ Forall (fun b => str_ltb a b = true) t.
Proof.
  revert a; induction t as [|b t IH]; intros a H.
  - split; [reflexivity|constructor].
  - change (sorted_keys (a :: b :: t)) with (str_ltb a b && sorted_keys (b :: t)) in H.
    apply andb_prop in H. destruct H as [H1 H2]. split; [exact H2|].
    constructor; [exact H1|]. destruct (IH b H2) as [_ HF].
    eapply Forall_impl; [|exact HF]. intros c Hc. cbv beta in Hc.
    eapply str_ltb_trans; eassumption.
Qed.

(* on sorted (hence unique) keys: exactly the named key disappears, the others keep their order *)
Theorem fkeys_fdel {A} (f : list (str * A)) n : sorted_keys (fkeys f) = true ->
  fkeys (fdel f n) = filter (fun k => negb (str_eqb n k)) (fkeys f).
Proof.
  induction f as [|[k c] t IH]; intros Hs; [reflexivity|].
  change (fkeys ((k, c) :: t)) with (k :: fkeys t) in *.
  apply sorted_keys_cons in Hs. destruct Hs as [Hs HF].
  cbn [fdel]. rewrite filter_cons_eq. destruct (str_eqb n k) eqn:E; cbn [negb].
  - apply str_eqb_eq in E. subst k. symmetry. apply filter_true_id.
    intros x Hx. rewrite Forall_forall in HF. specialize (HF x Hx).
    destruct (str_eqb n x) eqn:E; [|reflexivity]. apply str_eqb_eq in E. subst x.
    rewrite str_ltb_irrefl in HF. discriminate.
  - change (fkeys ((k, c) :: fdel t n)) with (k :: fkeys (fdel t n)). f_equal. apply IH. exact Hs.
Qed.

(* the surviving columns are untouched *)
Lemma fget_fdel_other {A} (f : list (str * A)) n k : k <> n -> fget (fdel f n) k = fget f k.
Proof.
  intros Hne. induction f as [|[k' c] t IH]; [reflexivity|].
  cbn [fdel]. destruct (str_eqb n k') eqn:E.
  - apply str_eqb_eq in E. subst k'. cbn [fget].
    assert (E2 : str_eqb k n = false) by (apply str_eqb_neq; exact Hne). rewrite E2. reflexivity.
  - cbn [fget]. rewrite IH. reflexivity.
Qed.

Corollary op_dropcolumn_keys f n : wf_frame f = true -> In n (fkeys f) ->
  exists g, op_dropcolumn f n = Ok g /\ fkeys g = filter (fun k => negb (str_eqb n k)) (fkeys f)
            /\ forall k, k <> n -> fget g k = fget f k.
Proof.
  intros Hwf Hin. exists (fdel f n). split; [apply op_dropcolumn_ok; exact Hin|].
  unfold wf_frame in Hwf. apply andb_prop in Hwf. destruct Hwf as [_ Hs].
  split; [apply fkeys_fdel; exact Hs|]. intros k Hk. apply fget_fdel_other. exact Hk.
Qed.

Example op_dropcolumn_example :
  wf_frame exf = true /\ In [97%N] (fkeys exf) /\
  op_dropcolumn exf [97%N] = Ok [([98%N], ([98%N], [CS [120%N]; CNil; CB true]))]
  /\ op_dropcolumn exf [99%N] = Err.
Proof. split; [reflexivity|]. split; [left; reflexivity|]. vm_compute. split; reflexivity. Qed.

(* MultiSelect: Err exactly when no name is given or a name is absent *)
Theorem op_multiselect_err_iff f names :
  op_multiselect f names = Err <-> names = [] \/ exists n, In n names /\ ~ In n (fkeys f).
Proof.
  unfold op_multiselect. destruct names as [|n0 names]; cbn [null].
  - split; [intros _; left; reflexivity|reflexivity].
  - destruct (all_some (map (fget f) (n0 :: names))) as [cs|] eqn:E.
    + split; [discriminate|]. intros [H|[n [Hin Hn]]]; [discriminate|]. exfalso.
      apply all_some_Some in E.
      assert (Hm : In (fget f n) (map (fget f) (n0 :: names))) by (apply in_map; exact Hin).
      rewrite E in Hm. apply in_map_iff in Hm. destruct Hm as [c [Hc _]].
      apply Hn. apply fhas_in. unfold fhas. rewrite <- Hc. reflexivity.
    + split; [|reflexivity]. intros _. right. apply all_some_None in E.
      apply in_map_iff in E. destruct E as [n [Hn Hin]]. exists n. split; [exact Hin|].
      intros Hk. apply fhas_in in Hk. unfold fhas in Hk. rewrite Hn in Hk. discriminate.
Qed.

Example op_multiselect_example :
  op_multiselect exf [[98%N]] = Ok [([98%N], ([98%N], [CS [120%N]; CNil; CB true]))]
  /\ op_multiselect exf [] = Err /\ op_multiselect exf [[98%N]; [99%N]] = Err.
Proof. vm_compute. repeat split. Qed.

(* ------------------------------------------------------------------ *)
Print Assumptions pick_seq_firstn.
Print Assumptions pick_seq_skipn.
Print Assumptions pick_nth.
Print Assumptions rows_pick.
Print Assumptions rows_pick_rekey.
Print Assumptions frow_some_iff.
Print Assumptions op_head_spec.
Print Assumptions op_head_rows.
Print Assumptions op_tail_spec.
Print Assumptions op_tail_rows.
Print Assumptions op_rowslice_spec.
Print Assumptions op_rowslice_rows.
Print Assumptions filter_calls_rect.
Print Assumptions op_filter_sees_rows.
Print Assumptions op_filter_spec.
Print Assumptions op_filter_rows.
Print Assumptions op_droprow_ok.
Print Assumptions op_droprow_err_iff.
Print Assumptions op_droprow_no_panic.
Print Assumptions op_droprow_rows.
Print Assumptions remove_nth_spec.
Print Assumptions op_row_ok_iff.
Print Assumptions op_row_rect.
Print Assumptions op_row_err_iff.
Print Assumptions op_iloc_err_iff.
Print Assumptions op_iloc_err_iff_prop.
Print Assumptions op_iloc_ok.
Print Assumptions op_dropcolumn_err_iff.
Print Assumptions fkeys_fdel.
Print Assumptions op_dropcolumn_keys.
Print Assumptions op_multiselect_err_iff.
