#!/bin/sh
# Builds the verification framework offline: the Coq development (full .vo build) and the
# Go harness against /repo (warms the Go build cache).  Run once after a fresh restore.
set -e
cd "$(dirname "$0")"
export GOFLAGS=-mod=mod GOPROXY=off
unset GOSUMDB
mkdir -p out evidence
(cd coq && coq_makefile -f _CoqProject -o Makefile && make -j16)
cp /repo/go.sum harness/go.sum 2>/dev/null || true
(cd harness && go build -tags verif -o ../out/harness .)
echo setup done
